#!/usr/bin/env python3
"""Regenerates MANIFEST.json from registry.py (claimed checks) and
properties.jsonl (everything not claimed goes to not_applicable with the
reason given in registry.NOT_CLAIMED)."""
import json, os, sys
ROOT = os.path.dirname(os.path.dirname(os.path.abspath(__file__)))
sys.path.insert(0, ROOT)
import registry

ids = [json.loads(l)["id"] for l in open(os.path.join(ROOT, "properties.jsonl"))]
checks = []
for pid in ids:
    if pid not in registry.PROPERTIES:
        continue
    p = registry.PROPERTIES[pid]
    m = registry.MANIFEST_TEXT[pid]
    c = {
        "property_id": pid,
        "quick_cmd": "./check %s --tier quick" % pid,
        "thorough_cmd": "./check %s --tier thorough" % pid,
        "evidence_file": "/verif/evidence/%s.json" % pid,
        "replay_cmd_template": "./check %s --replay {path}" % pid,
        "engine": "harness",
        "level_claimed": {"category": p["level"], "text": m["text"], "design_ref": m.get("ref", "DESIGN.md §4 " + pid)},
        "level_note": m["note"],
        "technique": m["technique"],
    }
    checks.append(c)
na = [{"property_id": pid, "reason": registry.NOT_CLAIMED.get(pid, "check not built yet in this round")}
      for pid in ids if pid not in registry.PROPERTIES]
man = {
    "version": 1,
    "setup_cmd": "./check --setup",
    "hooks": {
        "guard": "none: instrumentation is applied at build time with `go test -overlay` (harness/cmd/instrument); /repo carries no hook code",
        "enable": "./check builds the harness test binaries with -overlay=.work/overlay/overlay.json generated from /repo's current working tree",
        "baseline_off_cmd": "cd /repo && go test -vet=off -count=1 ./...",
        "source_commits": [],
        "add_only": True,
    },
    "engines": [{"name": "harness", "path": "/verif/harness", "serves_properties": [c["property_id"] for c in checks],
                 "kind_free_text": "Go module: pgregory.net/rapid v1.3.0 generators and shrinking, reference models and history monitors, testing/synctest fake clock, native go fuzzing in thorough tiers; driven by /verif/check"}],
    "checks": checks,
    "not_applicable": na,
    "notes": "All checks are property-based tests / fuzzers over generated inputs, histories, schedules and fault or crash positions; see DESIGN.md. known_findings.json lists genuine defects (known / fixed).",
}
json.dump(man, open(os.path.join(ROOT, "MANIFEST.json"), "w"), indent=1)
print("MANIFEST.json: %d checks, %d not claimed" % (len(checks), len(na)))

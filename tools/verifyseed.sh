#!/bin/bash
# usage: tools/verifyseed.sh <id> <property> -- confirm a seeded change in its scratch worktree and file it under seeded/<id>/
# checks: patch applies to a clean worktree, builds, existing suite passes (except http TestMisc),
# demo fails with the change and passes without it.
id=$1; pid=$2
wt=/tmp/seed/$id; out=/tmp/seed/$id.out
dst=/verif/seeded/$id
[ -f $out/patch.diff ] || { echo "no patch"; exit 2; }
cd $wt || exit 2
git stash -q -u 2>/dev/null; git checkout -q -- . ; git clean -fdq
git apply $out/patch.diff || { echo "patch does not apply to clean tree"; exit 2; }
go build ./... || { echo "BUILD FAILS"; exit 1; }
suite=$(go test -vet=off -count=1 ./... 2>&1 | grep -E "^(FAIL|---|ok|panic)" )
suite_fail=$(echo "$suite" | grep -E "^--- FAIL" | grep -v TestMisc)
demo=$(ls $out/*_test.go 2>/dev/null | head -1)
pkgdir=$(grep -l "" $out/README.md >/dev/null; grep -oE "\./[a-z]+/" $out/README.md | head -1)
demopkg=$(head -5 $demo | grep -E "^package " | awk '{print $2}')
case "$demopkg" in sts) d=. ;; main) d=main ;; *) d=$demopkg ;; esac
d=${d%_test}
cp $demo $wt/$d/
with=$(cd $wt && go test -vet=off -count=1 -timeout 300s -run 'Seed' ./$d/ 2>&1 | tail -3)
git apply -R $out/patch.diff
without=$(cd $wt && go test -vet=off -count=1 -timeout 300s -run 'Seed' ./$d/ 2>&1 | tail -3)
rm -f $wt/$d/$(basename $demo)
mkdir -p $dst
cp $out/patch.diff $dst/; cp $demo $dst/; cp $out/README.md $dst/ 2>/dev/null
python3 - "$id" "$pid" "$d" "$suite_fail" "$with" "$without" <<'PY'
import sys, json
id,pid,d,sf,w,wo=sys.argv[1:7]
ok_with = ('FAIL' in w)
ok_without = ('ok' in wo and 'FAIL' not in wo)
meta={"id":id,"breaks":pid,"demo_package":d,
 "confirmed":{"compiles":True,"existing_suite_passes_except_TestMisc": sf.strip()=="" , "suite_failures":sf,
   "demo_fails_with_change":ok_with,"demo_passes_without_change":ok_without,
   "ran":["git apply patch.diff; go build ./...; go test -vet=off -count=1 ./...","go test -run TestSeed ./%s/ (with change)"%d,"git apply -R patch.diff; go test -run TestSeed ./%s/ (without)"%d],
   "with_tail":w,"without_tail":wo}}
json.dump(meta,open('/verif/seeded/%s/meta.json'%id,'w'),indent=1)
print(id, "suite_ok=%s demo_fails_with=%s demo_passes_without=%s"%(sf.strip()=="",ok_with,ok_without))
PY

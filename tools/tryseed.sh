#!/bin/bash
# usage: tools/tryseed.sh <patch.diff> <PID> [tier]   -- apply a seeded change to /repo, run the check, undo
set -u
patch=$1; pid=$2; tier=${3:-quick}
cd /repo || exit 2
if [ -n "$(git status --porcelain)" ]; then echo "/repo not clean"; exit 2; fi
git apply "$patch" || { echo "patch does not apply"; exit 2; }
cd /verif && ./check "$pid" --tier "$tier" 2>&1 | tail -${TAIL:-12}
rc=${PIPESTATUS[0]}
git -C /repo checkout -- . 
git -C /verif checkout -- evidence 2>/dev/null
echo "seed run rc=$rc"
exit $rc

// Package confx checks configuration inheritance and JSON re-encoding (C19a).
package confx

import (
	"encoding/json"
	"fmt"
	"os"
	"path/filepath"
	"regexp"
	"strings"
	"testing"
	"time"

	"github.com/arm-doe/sts"
	"github.com/arm-doe/sts/log"
	"verif/harness/vt"
)

func TestMain(m *testing.M) {
	log.InitExternal(&vt.QuietLogger{})
	os.Exit(m.Run())
}

// One abstract option: absent, explicit non-zero, or explicit zero/false.
const (
	absent = iota
	nonzero
	zero
)

type opt struct {
	state int
	val   string // canonical textual value when present (as written in the document)
}

type kind struct {
	name   string
	class  string // int, duration, size, tri, float, regex
	values []string
	zero   string
}

var sourceOpts = []kind{
	{"threads", "int", []string{"1", "3", "8"}, "0"},
	{"compress", "int", []string{"1", "4", "9"}, "0"},
	{"poll-attempts", "int", []string{"2", "7"}, "0"},
	{"poll-max-count", "int", []string{"10", "500"}, "0"},
	{"min-age", "duration", []string{"5s", "1m30s", "2h"}, "0s"},
	{"scan-delay", "duration", []string{"10s", "45s"}, "0s"},
	{"timeout", "duration", []string{"5m", "1h"}, "0s"},
	{"poll-delay", "duration", []string{"2s", "1m"}, "0s"},
	{"poll-interval", "duration", []string{"5s", "250ms"}, "0s"},
	{"cache-age", "duration", []string{"5m", "36h"}, "0s"},
	{"stat-interval", "duration", []string{"30s"}, "0s"},
	{"bin-size", "size", []string{"20MB", "1KiB", "1536B", "3GiB"}, "0B"},
	{"stat-payload", "tri", []string{"true"}, "false"},
	{"include-hidden", "tri", []string{"true"}, "false"},
	{"error-backoff", "float", []string{"1.5", "2", "0.25", "1.2345678"}, "0"},
	{"group-by", "regex", []string{`^([a-z]+)\.`, `^(\w+)/`}, ""},
}

var tagOpts = []kind{
	{"priority", "int", []string{"1", "2", "5"}, "0"},
	{"order", "str", []string{"fifo", "lifo", "none"}, ""},
	{"method", "str", []string{"http", "disk"}, ""},
	{"chunk-size", "size", []string{"1MB", "512KiB"}, "0B"},
	{"delete", "tri", []string{"true"}, "false"},
	{"last-delay", "duration", []string{"30s", "2m"}, "0s"},
	{"delete-delay", "duration", []string{"1h", "90s"}, "0s"},
}

type aTag struct {
	pattern string // "DEFAULT" for tag 0
	opts    map[string]opt
}

type aSource struct {
	name   string
	opts   map[string]opt
	hasTgt bool
	tgtKey opt
	tgtHst opt
	tags   []aTag
	incl   []string
	hasInc bool
	ign    []string
	hasIgn bool
}

func drawOpt(t *vt.T, k kind, allowZero bool) opt {
	w := []int{3, 3, 2}
	if !allowZero {
		w[2] = 0
	}
	switch t.Weighted("state:"+k.name, w...) {
	case 1:
		return opt{nonzero, k.values[t.Pick("val:"+k.name, len(k.values))]}
	case 2:
		if k.class == "regex" || k.class == "str" {
			return opt{absent, ""}
		}
		return opt{zero, k.zero}
	}
	return opt{absent, ""}
}

func genConf(t *vt.T) []aSource {
	n := t.IntRange("nSources", 1, 4)
	var out []aSource
	for i := 0; i < n; i++ {
		s := aSource{name: fmt.Sprintf("src%d", i), opts: map[string]opt{}}
		for _, k := range sourceOpts {
			s.opts[k.name] = drawOpt(t, k, true)
		}
		s.hasTgt = i == 0 || t.Bool("hasTarget")
		if s.hasTgt {
			s.tgtKey = drawOpt(t, kind{"key", "str", []string{"k1", "k2"}, ""}, false)
			s.tgtHst = drawOpt(t, kind{"http-host", "str", []string{"hostA:1992", "hostB"}, ""}, false)
			if i == 0 && s.tgtHst.state == absent {
				s.tgtHst = opt{nonzero, "hostA:1992"}
			}
		}
		nt := t.IntRange("nTags", 0, 3)
		for j := 0; j < nt; j++ {
			tg := aTag{opts: map[string]opt{}}
			if j == 0 {
				tg.pattern = "DEFAULT"
			} else {
				tg.pattern = []string{`^info/`, `^logs/`, `\.raw$`}[j-1]
			}
			for _, k := range tagOpts {
				tg.opts[k.name] = drawOpt(t, k, true)
			}
			s.tags = append(s.tags, tg)
		}
		if t.Bool("hasInclude") {
			s.hasInc = true
			s.incl = []string{`\.dat$`, `^keep/`}[:t.IntRange("nInclude", 1, 2)]
		}
		if t.Bool("hasIgnore") {
			s.hasIgn = true
			s.ign = []string{`\.tmp$`, `^skip/`}[:t.IntRange("nIgnore", 1, 2)]
		}
		out = append(out, s)
	}
	return out
}

// ---- rendering

func yamlScalar(k kind, v string) string {
	switch k.class {
	case "regex", "str":
		return "'" + v + "'"
	}
	return v
}

func renderYAML(srcs []aSource) string {
	var b strings.Builder
	b.WriteString("OUT:\n  dirs:\n    cache: .sts/out\n    logs: data/log\n    out: data/out\n  sources:\n")
	for _, s := range srcs {
		fmt.Fprintf(&b, "    - name: %s\n", s.name)
		for _, k := range sourceOpts {
			if o := s.opts[k.name]; o.state != absent {
				fmt.Fprintf(&b, "      %s: %s\n", k.name, yamlScalar(k, o.val))
			}
		}
		if s.hasInc {
			b.WriteString("      include:\n")
			for _, p := range s.incl {
				fmt.Fprintf(&b, "        - '%s'\n", p)
			}
		}
		if s.hasIgn {
			b.WriteString("      ignore:\n")
			for _, p := range s.ign {
				fmt.Fprintf(&b, "        - '%s'\n", p)
			}
		}
		if s.hasTgt {
			b.WriteString("      target:\n        name: tgt\n")
			if s.tgtKey.state != absent {
				fmt.Fprintf(&b, "        key: %s\n", s.tgtKey.val)
			}
			if s.tgtHst.state != absent {
				fmt.Fprintf(&b, "        http-host: %s\n", s.tgtHst.val)
			}
		}
		if len(s.tags) > 0 {
			b.WriteString("      tags:\n")
			for _, tg := range s.tags {
				fmt.Fprintf(&b, "        - pattern: '%s'\n", tg.pattern)
				for _, k := range tagOpts {
					if o := tg.opts[k.name]; o.state != absent {
						fmt.Fprintf(&b, "          %s: %s\n", k.name, yamlScalar(k, o.val))
					}
				}
			}
		}
	}
	return b.String()
}

func jsonScalar(k kind, v string) any {
	switch k.class {
	case "int":
		var n int
		fmt.Sscan(v, &n)
		return n
	}
	return v // durations, sizes, tri-states, floats and regexes are strings in JSON
}

func renderJSON(srcs []aSource) string {
	var list []map[string]any
	for _, s := range srcs {
		m := map[string]any{"name": s.name}
		for _, k := range sourceOpts {
			if o := s.opts[k.name]; o.state != absent {
				m[k.name] = jsonScalar(k, o.val)
			}
		}
		if s.hasInc {
			m["include"] = s.incl
		}
		if s.hasIgn {
			m["ignore"] = s.ign
		}
		if s.hasTgt {
			tg := map[string]any{"name": "tgt"}
			if s.tgtKey.state != absent {
				tg["key"] = s.tgtKey.val
			}
			if s.tgtHst.state != absent {
				tg["http-host"] = s.tgtHst.val
			}
			m["target"] = tg
		}
		if len(s.tags) > 0 {
			var tags []map[string]any
			for _, tg := range s.tags {
				tm := map[string]any{"pattern": tg.pattern}
				for _, k := range tagOpts {
					if o := tg.opts[k.name]; o.state != absent {
						tm[k.name] = jsonScalar(k, o.val)
					}
				}
				tags = append(tags, tm)
			}
			m["tags"] = tags
		}
		list = append(list, m)
	}
	doc := map[string]any{"out": map[string]any{"dirs": map[string]any{"cache": ".sts/out", "logs": "data/log", "out": "data/out"}, "sources": list}}
	b, _ := json.MarshalIndent(doc, "", " ")
	return string(b)
}

// ---- reference inheritance

type effOpt struct {
	val      string
	explicit bool
}

func effective(srcs []aSource) (srcEff []map[string]effOpt, tagEff [][]map[string]effOpt, tgtEff []map[string]string) {
	var prevTags []map[string]effOpt
	for i, s := range srcs {
		e := map[string]effOpt{}
		for _, k := range sourceOpts {
			o := s.opts[k.name]
			switch {
			case o.state != absent:
				e[k.name] = effOpt{o.val, true}
			case i > 0:
				e[k.name] = effOpt{srcEff[i-1][k.name].val, false}
			default:
				e[k.name] = effOpt{k.zero, false}
			}
		}
		srcEff = append(srcEff, e)
		// target
		tg := map[string]string{}
		if i > 0 {
			for k, v := range tgtEff[i-1] {
				tg[k] = v
			}
		}
		if s.hasTgt {
			if s.tgtKey.state != absent {
				tg["key"] = s.tgtKey.val
			}
			if s.tgtHst.state != absent {
				tg["http-host"] = s.tgtHst.val
			}
		}
		tgtEff = append(tgtEff, tg)
		// tags
		var tags []map[string]effOpt
		if len(s.tags) == 0 {
			tags = prevTags
		} else {
			for j, t := range s.tags {
				te := map[string]effOpt{}
				for _, k := range tagOpts {
					o := t.opts[k.name]
					switch {
					case o.state != absent:
						te[k.name] = effOpt{o.val, true}
					case j > 0:
						te[k.name] = effOpt{tags[0][k.name].val, false}
					default:
						te[k.name] = effOpt{k.zero, false}
					}
				}
				te["pattern"] = effOpt{t.pattern, true}
				tags = append(tags, te)
			}
		}
		tagEff = append(tagEff, tags)
		prevTags = tags
	}
	return
}

// ---- reading the parsed configuration in the same textual terms

func parseDur(s string) time.Duration { d, _ := time.ParseDuration(s); return d }

func sizeBytes(s string) int64 {
	mult := map[string]int64{"B": 1, "KiB": 1 << 10, "MiB": 1 << 20, "GiB": 1 << 30, "KB": 1 << 10, "MB": 1 << 20, "GB": 1 << 30}
	var n int64
	var u string
	fmt.Sscanf(s, "%d%s", &n, &u)
	return n * mult[u]
}

func srcValue(s *sts.SourceConf, name string) string {
	switch name {
	case "threads":
		return fmt.Sprint(s.Threads)
	case "compress":
		return fmt.Sprint(s.Compression)
	case "poll-attempts":
		return fmt.Sprint(s.PollAttempts)
	case "poll-max-count":
		return fmt.Sprint(s.PollMaxCount)
	case "min-age":
		return s.MinAge.String()
	case "scan-delay":
		return s.ScanDelay.String()
	case "timeout":
		return s.Timeout.String()
	case "poll-delay":
		return s.PollDelay.String()
	case "poll-interval":
		return s.PollInterval.String()
	case "cache-age":
		return s.CacheAge.String()
	case "stat-interval":
		return s.StatInterval.String()
	case "bin-size":
		return fmt.Sprint(int64(s.BinSize))
	case "stat-payload":
		return fmt.Sprint(s.StatPayload)
	case "include-hidden":
		return fmt.Sprint(s.IncludeHidden)
	case "error-backoff":
		return fmt.Sprint(s.ErrorBackoff)
	case "group-by":
		if s.GroupBy == nil {
			return ""
		}
		return s.GroupBy.String()
	}
	return "?"
}

func tagValue(t *sts.TagConf, name string) string {
	switch name {
	case "priority":
		return fmt.Sprint(t.Priority)
	case "order":
		return t.Order
	case "method":
		return t.Method
	case "chunk-size":
		return fmt.Sprint(int64(t.ChunkSize))
	case "delete":
		return fmt.Sprint(t.Delete)
	case "last-delay":
		return t.LastDelay.String()
	case "delete-delay":
		return t.DeleteDelay.String()
	case "pattern":
		if t.Pattern == nil {
			return "DEFAULT"
		}
		return t.Pattern.String()
	}
	return "?"
}

func canon(class, v string) string {
	switch class {
	case "duration":
		return parseDur(v).String()
	case "size":
		return fmt.Sprint(sizeBytes(v))
	case "float":
		var f float64
		fmt.Sscan(v, &f)
		return fmt.Sprint(f)
	}
	return v
}

func classOf(opts []kind, name string) string {
	for _, k := range opts {
		if k.name == name {
			return k.class
		}
	}
	return "str"
}

func patternsOf(ps []*regexp.Regexp) string {
	var s []string
	for _, p := range ps {
		s = append(s, p.String())
	}
	return strings.Join(s, " | ")
}

var caseNo int

func propConf(t *vt.T) {
	srcs := genConf(t)
	format := t.OneOf("format", "yaml", "json")
	var doc string
	if format == "yaml" {
		doc = renderYAML(srcs)
	} else {
		doc = renderJSON(srcs)
	}
	caseNo++
	dir := os.Getenv("VT_TMP")
	if dir == "" {
		dir = os.TempDir()
	}
	path := filepath.Join(dir, fmt.Sprintf("conf-%d-%d.%s", os.Getpid(), caseNo, format))
	os.WriteFile(path, []byte(doc), 0644)
	defer os.Remove(path)
	conf, err := sts.NewConf(path)
	if err != nil || conf == nil || conf.Client == nil {
		t.Note("document rejected: %v\n%s", err, doc)
		t.Class("rejected-document")
		t.Violation("generated-document-rejected", "the generated %s document was rejected: %v\n%s", format, err, doc)
		return
	}
	t.Note("%s", doc)
	_, tagEff, tgtEff := effective(srcs)
	got := conf.Client.Sources
	if len(got) != len(srcs) {
		t.Violation("source-count", "parsed %d sources, document has %d", len(got), len(srcs))
	}
	absentSeen, zeroSeen := false, false
	check := func(where string) {
		// inductive form of the inheritance rule: an option that is absent
		// takes the value the preceding source (or the default tag) actually
		// has; an explicit one is what was written
		for i, s := range got {
			for _, k := range sourceOpts {
				o := srcs[i].opts[k.name]
				want := canon(k.class, k.zero)
				switch {
				case o.state != absent:
					want = canon(k.class, o.val)
				case i > 0:
					want = srcValue(got[i-1], k.name)
				}
				have := srcValue(s, k.name)
				if o.state == absent {
					absentSeen = true
				}
				if o.state == zero {
					zeroSeen = true
				}
				if have != want {
					key := "source-option-wrong:" + k.class
					if o.state == zero {
						key = "explicit-zero-number-overridden-by-inheritance"
						if k.name == "include-hidden" {
							key = "explicit-false-include-hidden-overridden-by-inheritance"
						}
					}
					if t.Violation(key, "%s: source %d (%s) option %s is %s, expected %s (written: %q, state %d)\n%s", where, i, s.Name, k.name, have, want, o.val, o.state, doc) {
						continue
					}
				}
			}
			if tk := tgtEff[i]["key"]; s.Target == nil || s.Target.Key != tk || s.Target.Host != tgtEff[i]["http-host"] {
				th, tkk := "", ""
				if s.Target != nil {
					th, tkk = s.Target.Host, s.Target.Key
				}
				t.Violation("target-inheritance", "%s: source %d target host/key %q/%q, expected %q/%q", where, i, th, tkk, tgtEff[i]["http-host"], tk)
			}
			if len(s.Tags) != len(tagEff[i]) {
				t.Violation("tag-count", "%s: source %d has %d tags, expected %d", where, i, len(s.Tags), len(tagEff[i]))
			}
			ownTags := len(srcs[i].tags) > 0
			for j, tg := range s.Tags {
				for _, k := range append(tagOpts, kind{name: "pattern", class: "str"}) {
					have := tagValue(tg, k.name)
					want := canon(k.class, k.zero)
					explicitZero := false
					switch {
					case !ownTags:
						want = tagValue(got[i-1].Tags[j], k.name) // the whole list is inherited
					case k.name == "pattern":
						want = srcs[i].tags[j].pattern
					case srcs[i].tags[j].opts[k.name].state != absent:
						want = canon(k.class, srcs[i].tags[j].opts[k.name].val)
						explicitZero = srcs[i].tags[j].opts[k.name].state == zero
					case j > 0:
						want = tagValue(s.Tags[0], k.name)
					}
					if have != want {
						key := "tag-option-wrong:" + k.class
						if explicitZero {
							key = "explicit-zero-number-overridden-by-inheritance"
							if k.name == "delete" {
								key = "explicit-false-delete-overridden-by-inheritance"
							}
						}
						if t.Violation(key, "%s: source %d tag %d option %s is %q, expected %q\n%s", where, i, j, k.name, have, want, doc) {
							continue
						}
					}
				}
			}
			wantInc, wantIgn := "", ""
			for k := i; k >= 0; k-- {
				if srcs[k].hasInc {
					wantInc = strings.Join(srcs[k].incl, " | ")
					break
				}
			}
			for k := i; k >= 0; k-- {
				if srcs[k].hasIgn {
					wantIgn = strings.Join(srcs[k].ign, " | ")
					break
				}
			}
			if patternsOf(s.Include) != wantInc || patternsOf(s.Ignore) != wantIgn {
				t.Violation("pattern-list-inheritance", "%s: source %d include %q ignore %q, expected %q / %q", where, i, patternsOf(s.Include), patternsOf(s.Ignore), wantInc, wantIgn)
			}
		}
	}
	check("parsed")
	// ---- re-encoding, as a server hands configuration to a managed client
	b, err := json.Marshal(conf.Client)
	if err != nil {
		t.Violation("marshal-error", "json.Marshal of the parsed client configuration failed: %v", err)
	}
	var again sts.ClientConf
	if err := json.Unmarshal(b, &again); err != nil {
		t.Violation("re-encoded-document-rejected", "parsing the re-encoded configuration failed: %v\n%s", err, b)
	}
	got = again.Sources
	if len(got) != len(srcs) {
		t.Violation("source-count", "re-parsed %d sources, document has %d", len(got), len(srcs))
	}
	// the reference for the round trip is what the first parse produced
	first := conf.Client.Sources
	for i, s := range got {
		for _, k := range sourceOpts {
			a, bb := srcValue(first[i], k.name), srcValue(s, k.name)
			if a != bb {
				if t.Violation("re-encoding-changes:"+k.class, "after parse -> JSON -> parse, source %d option %s is %s, was %s\nJSON: %s", i, k.name, bb, a, b) {
					continue
				}
			}
		}
		if len(s.Tags) != len(first[i].Tags) {
			t.Violation("re-encoding-changes:tags", "after re-encoding source %d has %d tags, had %d", i, len(s.Tags), len(first[i].Tags))
		}
		for j := range s.Tags {
			for _, k := range append(tagOpts, kind{name: "pattern", class: "str"}) {
				a, bb := tagValue(first[i].Tags[j], k.name), tagValue(s.Tags[j], k.name)
				if a != bb {
					if t.Violation("re-encoding-changes:tag-"+k.class, "after parse -> JSON -> parse, source %d tag %d option %s is %q, was %q\nJSON: %s", i, j, k.name, bb, a, b) {
						continue
					}
				}
			}
		}
		if patternsOf(s.Include) != patternsOf(first[i].Include) || patternsOf(s.Ignore) != patternsOf(first[i].Ignore) {
			t.Violation("re-encoding-changes:patterns", "after re-encoding source %d include/ignore changed", i)
		}
		if (s.Target == nil) != (first[i].Target == nil) || (s.Target != nil && (s.Target.Key != first[i].Target.Key || s.Target.Host != first[i].Target.Host)) {
			t.Violation("re-encoding-changes:target", "after re-encoding source %d target changed", i)
		}
	}
	multi := len(srcs) >= 2
	for _, s := range srcs {
		if len(s.tags) >= 2 {
			multi = true
		}
	}
	if multi && absentSeen && zeroSeen {
		t.NonTrivial()
	}
	if len(srcs) >= 2 {
		t.Class("multi-source")
	}
	t.Class("format-" + format)
}

func TestC19Conf(t *testing.T) { vt.Check(t, "C19", propConf) }

package stagex

import (
	"fmt"
	"testing"
	"time"

	"github.com/arm-doe/sts"
	"verif/harness/vt"
)

// C20 directed: build a staging area out of chosen ingredients with the real
// protocol, let it age, clean, then finish every transfer without resending
// what was acknowledged.
func propCleanDirected(t *vt.T) {
	w := NewWorld(t, "C20")
	s := &Scenario{w: w, t: t, p: Profile{Prop: "C20"}, psize: t.IntRange("partSize", 1, 4)}
	defer s.Close()
	w.st.GetFileStatus("no/such/file", time.Now().Add(-time.Hour))
	n := t.IntRange("nNames", 1, 4)
	type subj struct {
		fs       *fileState
		acked    []PartSpec
		expected bool // must end delivered
	}
	var subs []*subj
	mkv := func(name, prev string) *Version {
		v := &Version{Name: name, Prev: prev, Data: s.newContent(s.psize*t.IntRange("parts", 1, 4) + t.IntRange("rest", 0, 1)), Time: time.Now().Add(-3 * time.Hour)}
		w.AddVersion(v)
		return v
	}
	sendSome := func(fs *fileState, k int) []PartSpec {
		var got []PartSpec
		for i := 0; i < k && i < len(fs.parts); i++ {
			if _, err := w.Request([]PartSpec{fs.parts[i]}); err == nil {
				got = append(got, fs.parts[i])
			}
		}
		return got
	}
	for i := 0; i < n; i++ {
		name := fmt.Sprintf("%sf%d.dat", dirs[t.Pick("dir", len(dirs))], i)
		kind := t.Pick("ingredient", 8)
		sb := &subj{expected: true}
		switch kind {
		case 0: // partial in progress
			v := mkv(name, "")
			sb.fs = &fileState{cur: v, parts: tile(v, s.psize)}
			sb.acked = sendSome(sb.fs, t.IntRange("sent", 1, len(sb.fs.parts)-1))
			t.Class("ingredient-partial")
		case 1: // delivered, then a new version partly received
			v1 := mkv(name, "")
			w.Request(tile(v1, s.psize))
			w.Settle()
			s.observe()
			v2 := mkv(name, "")
			sb.fs = &fileState{cur: v2, parts: tile(v2, s.psize)}
			s.files = append(s.files, &fileState{cur: v1})
			sb.acked = sendSome(sb.fs, t.IntRange("sent", 1, len(sb.fs.parts)-1))
			t.Class("ingredient-new-version-of-delivered-name")
		case 2: // complete and validated but held for a predecessor that has not arrived
			prev := mkv(name+".prev", "")
			v := mkv(name, prev.Name)
			sb.fs = &fileState{cur: v, parts: tile(v, s.psize)}
			w.Request(sb.fs.parts)
			sb.acked = sb.fs.parts
			pfs := &fileState{cur: prev, parts: tile(prev, s.psize)}
			subs = append(subs, &subj{fs: pfs, expected: true})
			s.files = append(s.files, pfs)
			t.Class("ingredient-held")
		case 3: // delivered, then a late duplicate leaves a stray partial
			v := mkv(name, "")
			sb.fs = &fileState{cur: v, parts: tile(v, s.psize)}
			w.Request(sb.fs.parts)
			w.Settle()
			s.observe()
			if len(sb.fs.parts) > 1 {
				w.Request(sb.fs.parts[:1])
			}
			sb.acked = sb.fs.parts
			t.Class("ingredient-late-duplicate")
		case 4: // complete but corrupt (failed), to be re-sent
			v := mkv(name, "")
			sb.fs = &fileState{cur: v, parts: tile(v, s.psize)}
			bad := append([]PartSpec{}, sb.fs.parts...)
			bad[0].Fault = FFlip
			w.Request(bad)
			t.Class("ingredient-failed")
		case 7: // a complete copy failed validation; the clean retransmission has begun and stalls
			v := mkv(name, "")
			sb.fs = &fileState{cur: v, parts: tile(v, s.psize)}
			if len(sb.fs.parts) < 2 {
				sb.acked = nil
				t.Class("ingredient-partial")
				sb.acked = sendSome(sb.fs, 1)
				break
			}
			bad := append([]PartSpec{}, sb.fs.parts...)
			bad[len(bad)-1].Fault = FFlip
			w.Request(bad)
			w.Settle()
			s.observe()
			if w.Poll(v) != sts.ConfirmFailed {
				t.Skip("the corrupt copy was not reported failed")
			}
			delete(w.completed, v.key())
			w.mu.Lock()
			if sh := w.shadows[v.Name]; sh != nil {
				sh.acked, sh.dirty = nil, false
			}
			w.mu.Unlock()
			sb.acked = sendSome(sb.fs, t.IntRange("resent", 1, len(sb.fs.parts)-1))
			t.Class("ingredient-retry-after-failed-validation")
		case 6: // delivered long ago: leaves nothing but (possibly nested) empty directories behind
			v := mkv(name, "")
			sb.fs = &fileState{cur: v, parts: tile(v, s.psize)}
			w.Request(sb.fs.parts)
			w.Settle()
			s.observe()
			sb.acked = sb.fs.parts
			t.Class("ingredient-delivered")
		case 5: // partial whose sender went away (never finished); not expected to arrive
			v := mkv(name, "")
			sb.fs = &fileState{cur: v, parts: tile(v, s.psize)}
			sb.acked = sendSome(sb.fs, 1)
			t.Class("ingredient-partial")
		}
		s.files = append(s.files, sb.fs)
		subs = append(subs, sb)
	}
	if t.Bool("settleFirst") {
		w.Settle()
		s.observe()
	}
	ages := []time.Duration{0, time.Hour, 25 * time.Hour, 49 * time.Hour}
	if t.HasClass("ingredient-held") {
		// a file held for an unknown predecessor makes the receiver search its
		// log every 10 s over ever larger windows; a day of that costs minutes
		ages = ages[:2]
	}
	age := ages[t.Pick("age", len(ages))]
	if age > 0 {
		t.Note("advance %v", age)
		s.AdvanceChecked(age)
		s.observe()
	}
	if t.Bool("freshDeliveryBeforeCleaning") {
		// a delivery right before the cleaning: its directory is young and, once the file has
		// left, empty apart from whatever old sub-directories it has
		v := mkv(dirs[t.Pick("freshDir", len(dirs))]+"fresh.dat", "")
		fs := &fileState{cur: v, parts: tile(v, s.psize)}
		s.files = append(s.files, fs)
		subs = append(subs, &subj{fs: fs, expected: true, acked: fs.parts})
		w.Request(fs.parts)
		w.Settle()
		s.observe()
		t.Class("fresh-delivery-before-cleaning")
	}
	rounds := t.IntRange("cleanRounds", 1, 2)
	for r := 0; r < rounds; r++ {
		s.stepClean()
		s.observe()
	}
	// acknowledged parts must still be on record (no retransmission needed)
	for _, sb := range subs {
		v := sb.fs.cur
		if w.arrivedCount(v) > 0 || w.completed[v.key()] {
			continue
		}
		for _, p := range sb.acked {
			// the record alone is not enough: the bytes have to be there as well
			if data := w.readStage(v.Name + ".part"); data == nil || int64(len(data)) < p.End || string(data[p.Beg:p.End]) != string(v.Data[p.Beg:p.End]) {
				if _, held := w.StageFiles()[v.Name+".wait"]; !held {
					if _, full := w.StageFiles()[v.Name+".full"]; !full || t.HasClass("ingredient-retry-after-failed-validation") {
						w.viol("C20", "cleaning-removed-undelivered-data", "after cleaning, the staged bytes of part [%d,%d) of %s#%.6s (acknowledged, version not delivered) are gone; staging: %v", p.Beg, p.End, v.Name, v.Hash, keysOf(w.StageFiles()))
					}
				}
			}
			if w.Query([]PartSpec{p}) != 1 {
				// Received() under-claims for a new version of a delivered name (see DESIGN); use the listing
				listed := false
				for _, pl := range w.Scan() {
					if pl.Name == v.Name && pl.Hash == v.Hash {
						var rs []rng
						for _, r := range pl.Parts {
							rs = append(rs, rng{r.Beg, r.End})
						}
						listed = covered(rs, p.Beg, p.End)
					}
				}
				if !listed {
					w.viol("C20", "cleaning-forgot-acknowledged-part", "after cleaning, part [%d,%d) of %s#%.6s (acknowledged, file incomplete) is no longer on record", p.Beg, p.End, v.Name, v.Hash)
				}
			}
		}
	}
	// finish: send exactly what the listing does not show as held
	for _, sb := range subs {
		v := sb.fs.cur
		if w.arrivedCount(v) > 0 {
			continue
		}
		var held []rng
		if w.Poll(v) != sts.ConfirmFailed { // a failed copy is sent again in full
			for _, pl := range w.Scan() {
				if pl.Name == v.Name && pl.Hash == v.Hash {
					for _, r := range pl.Parts {
						held = append(held, rng{r.Beg, r.End})
					}
				}
			}
		}
		for _, p := range sb.fs.parts {
			if covered(held, p.Beg, p.End) {
				continue
			}
			w.Request([]PartSpec{p})
		}
		w.Settle()
		s.observe()
	}
	for round := 0; round < 3; round++ {
		w.Advance(11 * time.Second)
		s.observe()
	}
	for _, sb := range subs {
		v := sb.fs.cur
		if sb.expected && w.arrivedCount(v) != 1 {
			// a corrupt first attempt needs the whole file again
			w.Request(sb.fs.parts)
			w.Settle()
			w.Advance(11 * time.Second)
			s.observe()
			if w.arrivedCount(v) != 1 {
				w.viol("C20", "transfer-not-completed-after-cleaning", "%s#%.6s was completed by sending only what the receiver did not list as held, and again in full, but is not delivered (arrivals %d); staging: %v",
					v.Name, v.Hash, w.arrivedCount(v), keysOf(w.StageFiles()))
			} else {
				w.viol("C20", "retransmission-needed-after-cleaning", "%s#%.6s was only delivered after sending parts again that the receiver listed as held (their data had been removed)", v.Name, v.Hash)
			}
		}
	}
}

func TestC20Directed(t *testing.T) { vt.CheckBubble(t, "C20", propCleanDirected) }

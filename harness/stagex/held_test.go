package stagex

import (
	"testing"
	"time"

	"github.com/arm-doe/sts"

	"verif/harness/vt"
)

// C01 directed: a validated file is held for its predecessor while parts of a
// new version of the same name arrive (the companion then describes the new
// version); the receiver restarts; the predecessor arrives. Whatever reaches
// the final directory must carry the hash it is logged with.
func propHeldThenNewVersion(t *vt.T) {
	w := NewWorld(t, "C01")
	s := &Scenario{w: w, t: t, p: Profile{Prop: "C01"}, psize: t.IntRange("partSize", 1, 4)}
	defer s.Close()
	w.st.GetFileStatus("no/such/file", time.Now().Add(-time.Hour))
	prev := &Version{Name: "d/prev.dat", Data: s.newContent(s.psize*t.IntRange("prevParts", 1, 2) + 1), Time: time.Now().Add(-5 * time.Hour)}
	v1 := &Version{Name: "d/f.dat", Prev: prev.Name, Data: s.newContent(s.psize*t.IntRange("v1Parts", 1, 3) + t.IntRange("v1Rest", 0, 1)), Time: time.Now().Add(-4 * time.Hour)}
	v2 := &Version{Name: "d/f.dat", Prev: prev.Name, Data: s.newContent(s.psize*t.IntRange("v2Parts", 2, 4) + 1), Time: time.Now().Add(-time.Hour)}
	if t.Bool("renamed") {
		v1.Renamed, v2.Renamed = "r/f.ren", "r/f.ren"
	}
	for _, v := range []*Version{prev, v1, v2} {
		w.AddVersion(v)
	}
	s.files = []*fileState{{cur: prev, parts: tile(prev, s.psize)}, {cur: v2, parts: tile(v2, s.psize)}}
	w.Request(tile(v1, s.psize))
	w.Settle()
	s.observe()
	p2 := tile(v2, s.psize)
	k := t.IntRange("v2PartsBeforeRestart", 1, len(p2))
	w.Request(p2[:k])
	if t.Bool("settle") {
		w.Settle()
	}
	s.observe()
	t.Class("held-copy-with-newer-companion")
	t.NonTrivial()
	restartFirst := t.Bool("restartBeforePredecessor")
	if restartFirst {
		w.Restart()
		s.observe()
	}
	w.Request(tile(prev, s.psize))
	w.Settle()
	s.observe()
	if !restartFirst {
		w.Restart()
		s.observe()
	}
	if k < len(p2) {
		w.Request(p2[k:])
	}
	w.Settle()
	s.observe()
	w.Advance(11 * time.Second)
	s.observeSettled()
	w.Advance(31 * time.Minute)
	s.observeSettled()
	if w.arrivedCount(prev) != 1 {
		w.viol("C03", "predecessor-not-delivered", "prev not delivered")
	}
}

func TestC01HeldThenNewVersion(t *testing.T) { vt.CheckBubble(t, "C01", propHeldThenNewVersion) }

// C01 directed: "a complete copy that does not hash is never delivered and is reported failed" -
// also when the name was delivered before with other content, the record of that delivery has
// aged out of the receiver's memory (25 h, restart) and something makes the receiver read its
// log again (an old file completing, a query, a poll with an old start time).
func propRejectedCopyReported(t *vt.T) {
	w := NewWorld(t, "C01")
	s := &Scenario{w: w, t: t, p: Profile{Prop: "C01"}, psize: t.IntRange("partSize", 1, 4)}
	defer s.Close()
	if t.Bool("firstPoll") {
		w.st.GetFileStatus("no/such/file", time.Now().Add(-time.Hour))
	}
	v1 := &Version{Name: "d/f.dat", Data: s.newContent(s.psize*t.IntRange("v1Parts", 1, 3) + t.IntRange("v1Rest", 0, 1)), Time: time.Now().Add(-3 * time.Hour)}
	other := &Version{Name: "d/other.dat", Data: s.newContent(s.psize + 1), Time: time.Now().Add(-4 * time.Hour)}
	w.AddVersion(v1)
	w.AddVersion(other)
	s.files = []*fileState{{cur: v1, parts: tile(v1, s.psize)}}
	w.Request(tile(v1, s.psize))
	w.Settle()
	s.observe()
	if w.arrivedCount(v1) != 1 {
		t.Skip("first version not delivered")
	}
	ageing := t.Pick("ageing", 4)
	if ageing == 1 || ageing == 3 {
		w.Advance(25 * time.Hour)
		s.observeSettled()
		t.Class("delivery-aged-25h")
	}
	if ageing >= 2 {
		w.Restart()
		s.observe()
		t.Class("restart-after-delivery")
	}
	size := len(v1.Data)
	if t.Bool("otherSize") {
		size = s.psize*t.IntRange("v2Parts", 2, 4) + 1
	}
	v2 := &Version{Name: "d/f.dat", Data: s.newContent(size), Time: time.Now().Add(-time.Duration(t.IntRange("v2AgeMin", 0, 170)) * time.Minute)}
	w.AddVersion(v2)
	s.files = []*fileState{{cur: v2, parts: tile(v2, s.psize)}}
	parts := tile(v2, s.psize)
	k := t.Pick("flippedPart", len(parts))
	parts[k].Fault = FFlip
	parts[k].At = int64(t.IntRange("flipAt", 0, int(parts[k].End-parts[k].Beg)-1))
	w.Request(parts)
	w.Settle()
	s.observe()
	t.Class("corrupt-complete-copy-of-new-version")
	t.NonTrivial()
	switch t.Pick("logReader", 4) {
	case 1:
		w.Request(tile(other, s.psize)) // an old file completes: the receiver reads its log further back
		w.Settle()
		s.observe()
		t.Class("old-file-completes-afterwards")
	case 2:
		w.Query(tile(v2, s.psize))
	case 3:
		w.Poll(other)
	}
	code := w.Poll(v2)
	t.Note("poll for %s after the rejected copy of its new version -> %d", v2.Name, code)
	if code == sts.ConfirmPassed || code == sts.ConfirmWaiting {
		w.viol("C01", "rejected-copy-reported-positive", "a complete copy of the new version of %s arrived corrupt (byte flipped in part %d) and cannot have been validated, yet the poll for that name answers %d (passed/waiting)", v2.Name, k, code)
	}
	// the clean copy then goes through
	w.Request(tile(v2, s.psize))
	w.Settle()
	s.observe()
	w.Advance(11 * time.Second)
	s.observeSettled()
	if w.arrivedCount(v2) != 1 {
		t.Class("clean-copy-not-delivered-at-once")
	}
}

func TestC01RejectedCopyReported(t *testing.T) { vt.CheckBubble(t, "C01", propRejectedCopyReported) }

// C04 directed: the predecessor was delivered days ago (its record lies several day files back in
// the receive log) and the receiver has been restarted since, so that the delivery is known only
// from the log. A file announcing that predecessor is held while the receiver looks for it -
// one more day further back every ten seconds - and must be released once it has found it,
// after the predecessor and never before.
func propOldPredecessor(t *vt.T) {
	w := NewWorld(t, "C04")
	s := &Scenario{w: w, t: t, p: Profile{Prop: "C04"}, psize: t.IntRange("partSize", 1, 4)}
	defer s.Close()
	if t.Bool("firstPoll") {
		w.st.GetFileStatus("no/such/file", time.Now().Add(-time.Hour))
	}
	a := &Version{Name: "g/a.dat", Data: s.newContent(s.psize + 1), Time: time.Now().Add(-3 * time.Hour)}
	bParts := t.IntRange("bParts", 1, 3)
	w.AddVersion(a)
	s.files = []*fileState{{cur: a, parts: tile(a, s.psize)}}
	w.Request(tile(a, s.psize))
	w.Settle()
	s.observe()
	if w.arrivedCount(a) != 1 {
		t.Skip("predecessor not delivered")
	}
	days := t.IntRange("daysAgo", 0, 6)
	if days > 0 {
		w.Advance(time.Duration(days)*24*time.Hour + time.Duration(t.IntRange("extraHours", 0, 23))*time.Hour)
		s.observeSettled()
	}
	if t.Weighted("restart", 1, 3) == 1 {
		w.Restart()
		s.observe()
		t.Class("restart")
	}
	if days >= 3 {
		t.Class("predecessor-delivered-3+-days-ago")
		t.NonTrivial()
	}
	// the successors are recent files (or as old as the predecessor: then the receiver's log
	// window for them reaches back that far anyway)
	age := 2 * time.Hour
	if t.Weighted("successorsAsOldAsPredecessor", 3, 1) == 1 {
		age = time.Since(a.Time) - time.Minute
	}
	b := &Version{Name: "g/b.dat", Prev: a.Name, Data: s.newContent(s.psize*bParts + 1), Time: time.Now().Add(-age)}
	c := &Version{Name: "g/c.dat", Prev: b.Name, Data: s.newContent(s.psize + 1), Time: time.Now().Add(-age / 2)}
	w.AddVersion(b)
	w.AddVersion(c)
	s.files = append(s.files, &fileState{cur: b, parts: tile(b, s.psize)}, &fileState{cur: c, parts: tile(c, s.psize)})
	withC := t.Bool("withSuccessor")
	if withC && t.Bool("successorFirst") {
		w.Request(tile(c, s.psize))
	}
	w.Request(tile(b, s.psize))
	if withC {
		w.Request(tile(c, s.psize)) // (a second copy of c is a duplicate, if it went first)
	}
	w.Settle()
	s.observe()
	for i := 0; i < 12 && w.arrivedCount(b) == 0; i++ {
		w.Advance(11 * time.Second)
		s.observe()
	}
	if w.arrivedCount(b) == 0 {
		t.Class("held-for-predecessor")
		w.viol("C04", "held-although-predecessor-delivered", "%s announces %s, which was delivered %d day(s) ago and is on record in the receive log; two simulated minutes after its validation it is still held (poll: %s; stage %v)",
			b.Name, a.Name, days, statusName(w.Poll(b)), keysOf(w.StageFiles()))
	}
	if withC {
		for i := 0; i < 6 && w.arrivedCount(c) == 0; i++ {
			w.Advance(11 * time.Second)
			s.observe()
		}
		if w.arrivedCount(c) == 0 {
			w.viol("C04", "held-although-predecessor-delivered", "%s (after %s) is still held", c.Name, b.Name)
		}
	}
	// order in the receive log
	idx := map[string]int{}
	for i, r := range w.LogRecords() {
		if _, ok := idx[r.Name]; !ok {
			idx[r.Name] = i
		}
	}
	if ib, ok := idx[b.Name]; ok && ib < idx[a.Name] {
		w.viol("C04", "delivered-before-predecessor", "%s is logged before its predecessor %s", b.Name, a.Name)
	}
	if ic, ok := idx[c.Name]; ok {
		if ib, okb := idx[b.Name]; !okb || ic < ib {
			w.viol("C04", "delivered-before-predecessor", "%s is logged before its predecessor %s", c.Name, b.Name)
		}
	}
}

func TestC04OldPredecessor(t *testing.T) { vt.CheckBubble(t, "C04", propOldPredecessor) }

package stagex

import (
	"testing"
	"time"

	"verif/harness/vt"
)

// C01 directed: a validated file is held for its predecessor while parts of a
// new version of the same name arrive (the companion then describes the new
// version); the receiver restarts; the predecessor arrives. Whatever reaches
// the final directory must carry the hash it is logged with.
func propHeldThenNewVersion(t *vt.T) {
	w := NewWorld(t, "C01")
	s := &Scenario{w: w, t: t, p: Profile{Prop: "C01"}, psize: t.IntRange("partSize", 1, 4)}
	defer s.Close()
	w.st.GetFileStatus("no/such/file", time.Now().Add(-time.Hour))
	prev := &Version{Name: "d/prev.dat", Data: s.newContent(s.psize*t.IntRange("prevParts", 1, 2) + 1), Time: time.Now().Add(-5 * time.Hour)}
	v1 := &Version{Name: "d/f.dat", Prev: prev.Name, Data: s.newContent(s.psize*t.IntRange("v1Parts", 1, 3) + t.IntRange("v1Rest", 0, 1)), Time: time.Now().Add(-4 * time.Hour)}
	v2 := &Version{Name: "d/f.dat", Prev: prev.Name, Data: s.newContent(s.psize*t.IntRange("v2Parts", 2, 4) + 1), Time: time.Now().Add(-time.Hour)}
	if t.Bool("renamed") {
		v1.Renamed, v2.Renamed = "r/f.ren", "r/f.ren"
	}
	for _, v := range []*Version{prev, v1, v2} {
		w.AddVersion(v)
	}
	s.files = []*fileState{{cur: prev, parts: tile(prev, s.psize)}, {cur: v2, parts: tile(v2, s.psize)}}
	w.Request(tile(v1, s.psize))
	w.Settle()
	s.observe()
	p2 := tile(v2, s.psize)
	k := t.IntRange("v2PartsBeforeRestart", 1, len(p2))
	w.Request(p2[:k])
	if t.Bool("settle") {
		w.Settle()
	}
	s.observe()
	t.Class("held-copy-with-newer-companion")
	t.NonTrivial()
	restartFirst := t.Bool("restartBeforePredecessor")
	if restartFirst {
		w.Restart()
		s.observe()
	}
	w.Request(tile(prev, s.psize))
	w.Settle()
	s.observe()
	if !restartFirst {
		w.Restart()
		s.observe()
	}
	if k < len(p2) {
		w.Request(p2[k:])
	}
	w.Settle()
	s.observe()
	w.Advance(11 * time.Second)
	s.observeSettled()
	w.Advance(31 * time.Minute)
	s.observeSettled()
	if w.arrivedCount(prev) != 1 {
		w.viol("C03", "predecessor-not-delivered", "prev not delivered")
	}
}

func TestC01HeldThenNewVersion(t *testing.T) { vt.CheckBubble(t, "C01", propHeldThenNewVersion) }

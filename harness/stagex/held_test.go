package stagex

import (
	"testing"
	"time"

	"github.com/arm-doe/sts"

	"verif/harness/vt"
)

// C01 directed: a validated file is held for its predecessor while parts of a
// new version of the same name arrive (the companion then describes the new
// version); the receiver restarts; the predecessor arrives. Whatever reaches
// the final directory must carry the hash it is logged with.
func propHeldThenNewVersion(t *vt.T) {
	w := NewWorld(t, "C01")
	s := &Scenario{w: w, t: t, p: Profile{Prop: "C01"}, psize: t.IntRange("partSize", 1, 4)}
	defer s.Close()
	w.st.GetFileStatus("no/such/file", time.Now().Add(-time.Hour))
	prev := &Version{Name: "d/prev.dat", Data: s.newContent(s.psize*t.IntRange("prevParts", 1, 2) + 1), Time: time.Now().Add(-5 * time.Hour)}
	v1 := &Version{Name: "d/f.dat", Prev: prev.Name, Data: s.newContent(s.psize*t.IntRange("v1Parts", 1, 3) + t.IntRange("v1Rest", 0, 1)), Time: time.Now().Add(-4 * time.Hour)}
	v2 := &Version{Name: "d/f.dat", Prev: prev.Name, Data: s.newContent(s.psize*t.IntRange("v2Parts", 2, 4) + 1), Time: time.Now().Add(-time.Hour)}
	if t.Bool("renamed") {
		v1.Renamed, v2.Renamed = "r/f.ren", "r/f.ren"
	}
	for _, v := range []*Version{prev, v1, v2} {
		w.AddVersion(v)
	}
	s.files = []*fileState{{cur: prev, parts: tile(prev, s.psize)}, {cur: v2, parts: tile(v2, s.psize)}}
	w.Request(tile(v1, s.psize))
	w.Settle()
	s.observe()
	p2 := tile(v2, s.psize)
	k := t.IntRange("v2PartsBeforeRestart", 1, len(p2))
	w.Request(p2[:k])
	if t.Bool("settle") {
		w.Settle()
	}
	s.observe()
	t.Class("held-copy-with-newer-companion")
	t.NonTrivial()
	restartFirst := t.Bool("restartBeforePredecessor")
	if restartFirst {
		w.Restart()
		s.observe()
	}
	w.Request(tile(prev, s.psize))
	w.Settle()
	s.observe()
	if !restartFirst {
		w.Restart()
		s.observe()
	}
	if k < len(p2) {
		w.Request(p2[k:])
	}
	w.Settle()
	s.observe()
	w.Advance(11 * time.Second)
	s.observeSettled()
	w.Advance(31 * time.Minute)
	s.observeSettled()
	if w.arrivedCount(prev) != 1 {
		w.viol("C03", "predecessor-not-delivered", "prev not delivered")
	}
}

func TestC01HeldThenNewVersion(t *testing.T) { vt.CheckBubble(t, "C01", propHeldThenNewVersion) }

// C01 directed: "a complete copy that does not hash is never delivered and is reported failed" -
// also when the name was delivered before with other content, the record of that delivery has
// aged out of the receiver's memory (25 h, restart) and something makes the receiver read its
// log again (an old file completing, a query, a poll with an old start time).
func propRejectedCopyReported(t *vt.T) {
	w := NewWorld(t, "C01")
	s := &Scenario{w: w, t: t, p: Profile{Prop: "C01"}, psize: t.IntRange("partSize", 1, 4)}
	defer s.Close()
	if t.Bool("firstPoll") {
		w.st.GetFileStatus("no/such/file", time.Now().Add(-time.Hour))
	}
	v1 := &Version{Name: "d/f.dat", Data: s.newContent(s.psize*t.IntRange("v1Parts", 1, 3) + t.IntRange("v1Rest", 0, 1)), Time: time.Now().Add(-3 * time.Hour)}
	other := &Version{Name: "d/other.dat", Data: s.newContent(s.psize + 1), Time: time.Now().Add(-4 * time.Hour)}
	w.AddVersion(v1)
	w.AddVersion(other)
	s.files = []*fileState{{cur: v1, parts: tile(v1, s.psize)}}
	w.Request(tile(v1, s.psize))
	w.Settle()
	s.observe()
	if w.arrivedCount(v1) != 1 {
		t.Skip("first version not delivered")
	}
	ageing := t.Pick("ageing", 4)
	if ageing == 1 || ageing == 3 {
		w.Advance(25 * time.Hour)
		s.observeSettled()
		t.Class("delivery-aged-25h")
	}
	if ageing >= 2 {
		w.Restart()
		s.observe()
		t.Class("restart-after-delivery")
	}
	size := len(v1.Data)
	if t.Bool("otherSize") {
		size = s.psize*t.IntRange("v2Parts", 2, 4) + 1
	}
	v2 := &Version{Name: "d/f.dat", Data: s.newContent(size), Time: time.Now().Add(-time.Duration(t.IntRange("v2AgeMin", 0, 170)) * time.Minute)}
	w.AddVersion(v2)
	s.files = []*fileState{{cur: v2, parts: tile(v2, s.psize)}}
	parts := tile(v2, s.psize)
	k := t.Pick("flippedPart", len(parts))
	parts[k].Fault = FFlip
	parts[k].At = int64(t.IntRange("flipAt", 0, int(parts[k].End-parts[k].Beg)-1))
	w.Request(parts)
	w.Settle()
	s.observe()
	t.Class("corrupt-complete-copy-of-new-version")
	t.NonTrivial()
	switch t.Pick("logReader", 4) {
	case 1:
		w.Request(tile(other, s.psize)) // an old file completes: the receiver reads its log further back
		w.Settle()
		s.observe()
		t.Class("old-file-completes-afterwards")
	case 2:
		w.Query(tile(v2, s.psize))
	case 3:
		w.Poll(other)
	}
	code := w.Poll(v2)
	t.Note("poll for %s after the rejected copy of its new version -> %d", v2.Name, code)
	if code == sts.ConfirmPassed || code == sts.ConfirmWaiting {
		w.viol("C01", "rejected-copy-reported-positive", "a complete copy of the new version of %s arrived corrupt (byte flipped in part %d) and cannot have been validated, yet the poll for that name answers %d (passed/waiting)", v2.Name, k, code)
	}
	// the clean copy then goes through
	w.Request(tile(v2, s.psize))
	w.Settle()
	s.observe()
	w.Advance(11 * time.Second)
	s.observeSettled()
	if w.arrivedCount(v2) != 1 {
		t.Class("clean-copy-not-delivered-at-once")
	}
}

func TestC01RejectedCopyReported(t *testing.T) { vt.CheckBubble(t, "C01", propRejectedCopyReported) }

package stagex

import (
	"fmt"
	"testing"
	"time"

	"github.com/arm-doe/sts"
	"verif/harness/vt"
)

// C05, ageing: a delivery whose in-memory record has been evicted (the cache
// sweep runs when the cache reaches a multiple of 1000 entries and drops
// deliveries logged more than 24 h ago) is known only from the receive log;
// retransmissions must still be recognised.
func propAgeing(t *vt.T) {
	w := NewWorld(t, "C05")
	s := &Scenario{w: w, t: t, p: Profile{Prop: "C05"}, psize: t.IntRange("partSize", 1, 4)}
	defer s.Close()
	w.st.GetFileStatus("no/such/file", time.Now().Add(-time.Hour))
	nx := t.IntRange("nSubjects", 1, 3)
	var subjects []*Version
	for i := 0; i < nx; i++ {
		v := &Version{Name: fmt.Sprintf("x/s%d.dat", i), Data: s.newContent(1 + t.IntRange("size", 0, 9)), Time: time.Now().Add(-time.Duration(10+i) * time.Hour)}
		if i > 0 && t.Bool("chained") {
			v.Prev = subjects[i-1].Name
		}
		if t.Bool("renamed") {
			v.Renamed = fmt.Sprintf("r/s%d.ren", i)
		}
		w.AddVersion(v)
		subjects = append(subjects, v)
		s.files = append(s.files, &fileState{cur: v, parts: tile(v, s.psize)})
		w.Request(tile(v, s.psize))
	}
	w.Settle()
	s.observeSettled()
	// fillers up to 999 entries
	mk := func(i int) *Version {
		v := &Version{Name: fmt.Sprintf("f/%04d", i), Data: []byte{byte('a' + i%26)}, Time: time.Now().Add(-time.Hour)}
		w.AddVersion(v)
		return v
	}
	total := nx
	w.Quiet = true
	late := t.IntRange("lateSubjects", 0, 2)
	for total < 999 {
		if total > 400 && late > 0 {
			// subjects whose file time is later than the first deliveries (the
			// log window that has to be reloaded for them starts later)
			w.Advance(2 * time.Minute)
			for ; late > 0; late-- {
				v := &Version{Name: fmt.Sprintf("x/late%d.dat", late), Data: s.newContent(1 + t.IntRange("lateSize", 0, 9)), Time: time.Now().Add(-time.Second)}
				w.AddVersion(v)
				subjects = append(subjects, v)
				s.files = append(s.files, &fileState{cur: v, parts: tile(v, s.psize)})
				w.Request(tile(v, s.psize))
				total++
				t.Class("late-subject")
			}
			nx = len(subjects)
		}
		var req []PartSpec
		for k := 0; k < 40 && total < 999; k++ {
			v := mk(total)
			req = append(req, PartSpec{V: v, Beg: 0, End: 1})
			total++
		}
		w.Request(req)
		w.Settle()
		w.Consume()
	}
	for _, v := range subjects {
		if w.arrivedCount(v) != 1 {
			t.Skip("subject not delivered in the preparation phase")
		}
	}
	t.Note("999 files delivered; sleeping 25 h")
	w.Advance(25 * time.Hour)
	w.Request([]PartSpec{{V: mk(total), Beg: 0, End: 1}}) // 1000th entry: triggers the sweep
	w.Settle()
	w.Consume()
	w.Quiet = false
	t.Class("cache-sweep-after-25h")
	t.NonTrivial()
	// retransmission history against the evicted subjects
	n := t.IntRange("nRetrans", 1, 6)
	for i := 0; i < n; i++ {
		v := subjects[t.Pick("subject", nx)]
		parts := tile(v, s.psize)
		switch t.Weighted("how", 3, 2, 2) {
		case 0: // asked first, as the sender does after a failed request
			got := w.Query(parts)
			t.Note("query %s -> %d of %d", v.Name, got, len(parts))
			if got != len(parts) {
				w.viol("C05", "aged-delivery-not-recognised-by-query", "%s was delivered 25 h ago and evicted from memory; Received() answers %d of %d parts", v.Name, got, len(parts))
				w.Request(parts[got:])
			}
			t.Class("asked-first")
		case 1: // poll
			st := w.Poll(v)
			t.Note("poll %s -> %s", v.Name, statusName(st))
			if st != sts.ConfirmPassed {
				w.viol("C05", "aged-delivery-not-recognised-by-poll", "%s was delivered 25 h ago and evicted from memory; a poll answers %s", v.Name, statusName(st))
			}
		case 2: // blind: parts simply arrive again
			k := t.IntRange("blindParts", 1, len(parts))
			w.Request(parts[:k])
			t.Class("blind-duplicate")
		}
		w.Settle()
		s.observe()
	}
	w.Advance(11 * time.Second)
	s.observe()
	for _, v := range subjects {
		if c := w.arrivedCount(v); c != 1 {
			w.viol("C05", "aged-delivery-delivered-again", "%s was delivered %d times", v.Name, c)
		}
	}
}

func TestC05Ageing(t *testing.T) { vt.CheckBubble(t, "C05", propAgeing) }

package stagex

import (
	"fmt"
	"os"
	"path/filepath"
	"sort"
	"strings"
	"time"

	"github.com/arm-doe/sts"
	"verif/harness/vt"
)

// Profile selects what a scenario may contain.
type Profile struct {
	Prop      string
	MaxFiles  int
	Prev      string // "none", "chain", "forest", "cycles"
	Faults    bool   // flips and failing readers
	ShortEOF  bool   // readers that end early without error
	Liars     bool   // versions announced with a wrong hash
	Overwrite bool   // staged copy modified on disk between requests
	Restarts  bool
	Dups      bool // retransmission of parts already sent
	Clean     bool // CleanNow / Prune at arbitrary points
	Reuse     bool // a name gets a new version later
	Rename    bool
	Overlap   bool // parts drawn from an interval grammar (overlapping, nested) instead of a tiling
	MaxSteps  int
	LongWaits bool // advance by 25 h and more
	Concurrent bool // several requests served at the same time
}

type fileState struct {
	cur      *Version
	parts    []PartSpec // tiling of cur
	unsent   []int      // indexes into parts not yet sent
	sent     []int
	sentOnce bool
}

type Scenario struct {
	w      *World
	t      *vt.T
	p      Profile
	files  []*fileState
	names  []string
	psize  int
	ctr    int
	faults int
	dups   int
	multiConn bool
}

var leafs = []string{"a.dat", "b.dat", "ab.dat", "a.dat.x", "c"}
var dirs = []string{"", "d1/", "d2/", "d1/s/"}

func (s *Scenario) newContent(size int) []byte {
	s.ctr++
	b := make([]byte, size)
	tag := fmt.Sprintf("<%d>", s.ctr)
	for i := range b {
		b[i] = byte('A' + (i*7+s.ctr*13)%26)
	}
	copy(b, tag)
	if size < len(tag) {
		// too short for the tag: still distinct from the previous contents of that size
		for i := range b {
			b[i] = byte('a' + (s.ctr*(i+1)+i)%26)
		}
	}
	return b
}

func (s *Scenario) sizeFor(label string) int {
	p := s.psize
	opts := []int{1, 2, p - 1, p, p + 1, 2 * p, 2*p - 1, 2*p + 1, 3*p + 1, 5 * p, 6*p + 2}
	n := opts[s.t.Pick(label, len(opts))]
	if n < 1 {
		n = 1
	}
	return n
}

func tile(v *Version, psize int) []PartSpec {
	var ps []PartSpec
	for b := int64(0); b < v.Size(); b += int64(psize) {
		e := b + int64(psize)
		if e > v.Size() {
			e = v.Size()
		}
		ps = append(ps, PartSpec{V: v, Beg: b, End: e})
	}
	return ps
}

func NewScenario(t *vt.T, p Profile) *Scenario {
	s := &Scenario{t: t, p: p}
	s.w = NewWorld(t, p.Prop)
	if t.Weighted("firstPoll", 1, 9) == 1 {
		// as a sender's first status poll would: fixes the start of the
		// receiver's log window (without it the first predecessor look-up
		// walks the day files back to year 1, which costs seconds)
		s.w.st.GetFileStatus("no/such/file", time.Now().Add(-time.Hour))
	}
	s.psize = t.IntRange("partSize", 1, 8)
	n := t.IntRange("nFiles", 1, p.MaxFiles)
	used := map[string]bool{}
	for i := 0; i < n; i++ {
		name := dirs[t.Pick("dir", len(dirs))] + leafs[t.Pick("leaf", len(leafs))]
		for used[name] {
			name += "x"
		}
		used[name] = true
		s.names = append(s.names, name)
	}
	for i, name := range s.names {
		v := &Version{Name: name, Data: s.newContent(s.sizeFor("size")),
			Time: vt.Base.Add(-time.Duration(200-i) * time.Hour)}
		if p.Rename && t.Weighted("renamed", 3, 1) == 1 {
			v.Renamed = "r/" + strings.ReplaceAll(name, "/", "_") + ".ren"
		}
		switch p.Prev {
		case "chain":
			if i > 0 {
				v.Prev = s.names[i-1]
			}
		case "forest":
			if i > 0 && t.Weighted("hasPrev", 1, 3) == 1 {
				v.Prev = s.names[t.Pick("prevOf", i)]
			}
		case "cycles":
			if t.Weighted("hasPrev", 1, 4) == 1 {
				v.Prev = s.names[t.Pick("prevAny", n)] // may be itself or a later file
			}
		}
		if p.Liars && t.Weighted("liar", 9, 1) == 1 {
			v.Hash = md5hex([]byte("not-" + name))
			t.Class("wrong-announced-hash")
		}
		s.w.AddVersion(v)
		fs := &fileState{cur: v}
		s.setPlan(fs)
		s.files = append(s.files, fs)
		t.Note("file %s size=%d prev=%q ren=%q hash=%s liar=%v", v.Name, v.Size(), v.Prev, v.Renamed, v.Hash[:4], v.Liar())
	}
	return s
}

func (s *Scenario) setPlan(fs *fileState) {
	fs.parts = tile(fs.cur, s.psize)
	if s.p.Overlap {
		// interval grammar: extra parts that overlap / nest / repeat
		size := fs.cur.Size()
		extra := s.t.IntRange("extraParts", 0, 4)
		for i := 0; i < extra; i++ {
			b := int64(s.t.IntRange("xBeg", 0, int(size-1)))
			e := b + int64(s.t.IntRange("xLen", 1, int(size-b)))
			fs.parts = append(fs.parts, PartSpec{V: fs.cur, Beg: b, End: e})
		}
	}
	order := s.t.Perm("order", len(fs.parts))
	fs.unsent = order
	fs.sent = nil
}

func (s *Scenario) drawFault(ps *PartSpec) {
	if !s.p.Faults && !s.p.ShortEOF {
		return
	}
	w := []int{14, 0, 0, 0, 0}
	if s.p.Faults {
		w[FFlip], w[FShortErr], w[FNoReceive] = 1, 1, 1
	}
	if s.p.ShortEOF {
		w[FShortEOF] = 1
	}
	ps.Fault = s.t.Weighted("fault", w...)
	if ps.Fault != FNone {
		ps.At = int64(s.t.IntRange("faultAt", 0, int(ps.End-ps.Beg-1)))
		s.faults++
		s.t.Class(fmt.Sprintf("fault-%d", ps.Fault))
	}
}

// stepSend issues one request of 1-3 parts.
func (s *Scenario) stepSend() bool {
	var cand []*fileState
	for _, fs := range s.files {
		if len(fs.unsent) > 0 || (s.p.Dups && len(fs.sent) > 0) {
			cand = append(cand, fs)
		}
	}
	if len(cand) == 0 {
		return false
	}
	n := s.t.IntRange("reqParts", 1, 3)
	var req []PartSpec
	filesIn := map[string]bool{}
	for i := 0; i < n; i++ {
		fs := cand[s.t.Pick("reqFile", len(cand))]
		var ps PartSpec
		if len(fs.unsent) > 0 && (!s.p.Dups || len(fs.sent) == 0 || s.t.Weighted("dup", 4, 1) == 0) {
			idx := fs.unsent[0]
			fs.unsent = fs.unsent[1:]
			fs.sent = append(fs.sent, idx)
			ps = fs.parts[idx]
		} else if len(fs.sent) > 0 {
			ps = fs.parts[fs.sent[s.t.Pick("dupIdx", len(fs.sent))]]
			s.dups++
			if s.w.completed[ps.V.key()] {
				s.t.Class("dup-after-complete")
			}
			if s.w.arrivedCount(ps.V) > 0 {
				s.t.Class("dup-after-delivery")
			}
		} else {
			continue
		}
		s.drawFault(&ps)
		req = append(req, ps)
		filesIn[ps.V.Name] = true
	}
	if len(req) == 0 {
		return false
	}
	if len(filesIn) > 1 {
		s.t.Class("multi-file-request")
	}
	s.t.Note("#%d request %d parts", s.w.step+1, len(req))
	n2, err := s.w.Request(req)
	// parts that were not received go back to the plan (the sender would
	// send the remainder again)
	if err != nil {
		for _, ps := range req[n2:] {
			for _, fs := range s.files {
				if fs.cur == ps.V {
					for i, q := range fs.parts {
						if q.Beg == ps.Beg && q.End == ps.End {
							fs.unsent = append(fs.unsent, i)
							break
						}
					}
				}
			}
		}
	}
	return true
}

// stepConcurrent serves 2-3 requests at once; each takes the next unsent
// parts, so parts of one file are typically received on several connections.
func (s *Scenario) stepConcurrent() bool {
	nconn := s.t.IntRange("connections", 2, 3)
	var reqs [][]PartSpec
	sameFile := false
	seen := map[string]int{}
	for c := 0; c < nconn; c++ {
		var req []PartSpec
		n := s.t.IntRange("connParts", 1, 2)
		for i := 0; i < n; i++ {
			var cand []*fileState
			for _, fs := range s.files {
				if len(fs.unsent) > 0 {
					cand = append(cand, fs)
				}
			}
			if len(cand) == 0 {
				break
			}
			fs := cand[s.t.Pick("connFile", len(cand))]
			idx := fs.unsent[0]
			fs.unsent = fs.unsent[1:]
			fs.sent = append(fs.sent, idx)
			req = append(req, fs.parts[idx])
			seen[fs.cur.Name]++
		}
		if len(req) > 0 {
			reqs = append(reqs, req)
		}
	}
	if len(reqs) < 2 {
		for _, r := range reqs {
			s.w.Request(r)
		}
		return len(reqs) > 0
	}
	for _, n := range seen {
		if n > 1 {
			sameFile = true
		}
	}
	if sameFile {
		s.t.Class("concurrent-parts-of-one-file")
	}
	s.t.Class("concurrent-requests")
	s.t.Note("#%d %d concurrent requests", s.w.step+1, len(reqs))
	s.w.RequestsConcurrent(reqs)
	return true
}

func (s *Scenario) stepReuse() bool {
	if !s.p.Reuse {
		return false
	}
	fs := s.files[s.t.Pick("reuseFile", len(s.files))]
	old := fs.cur
	v := &Version{Name: old.Name, Renamed: old.Renamed, Prev: old.Prev, Data: s.newContent(s.sizeFor("newSize")),
		Time: time.Now().Add(-time.Minute)}
	if s.t.Bool("sameSize") {
		v.Data = s.newContent(int(old.Size()))
	}
	s.w.AddVersion(v)
	fs.cur = v
	s.setPlan(fs)
	s.t.Class("name-reuse")
	s.t.Note("#%d new version of %s size=%d hash=%s", s.w.step, v.Name, v.Size(), v.Hash[:4])
	return true
}

func (s *Scenario) stepOverwrite() bool {
	if !s.p.Overwrite {
		return false
	}
	// only at a settled point, and only partials: a copy modified after it
	// has been validated cannot be detected by any receiver
	s.w.Settle()
	s.observe()
	files := s.w.StageFiles()
	var cands []string
	for f, sz := range files {
		if strings.HasSuffix(f, ".part") && sz > 0 {
			cands = append(cands, f)
		}
	}
	if len(cands) == 0 {
		return false
	}
	sort.Strings(cands)
	f := cands[s.t.Pick("owFile", len(cands))]
	p := filepath.Join(s.w.StageDir(), f)
	b, err := os.ReadFile(p)
	if err != nil || len(b) == 0 {
		return false
	}
	at := s.t.IntRange("owAt", 0, len(b)-1)
	b[at] ^= 0x11
	fh, err := os.OpenFile(p, os.O_WRONLY, 0)
	if err != nil {
		return false
	}
	fh.WriteAt(b[at:at+1], int64(at))
	fh.Close()
	name := strings.TrimSuffix(strings.TrimSuffix(f, ".part"), ".full")
	if sh := s.w.shadows[name]; sh != nil {
		sh.fed[int64(at)] = b[at]
		sh.dirty = true
	}
	s.faults++
	s.t.Class("staged-overwrite")
	s.t.Note("#%d overwrite staged %s at %d", s.w.step, f, at)
	return true
}

var waits = []time.Duration{time.Second, 11 * time.Second, 11 * time.Second, 65 * time.Second, 31 * time.Minute}

// Run executes the generated middle part of the scenario, observing after
// every step.
func (s *Scenario) Run() {
	steps := s.t.IntRange("nSteps", 1, s.p.MaxSteps)
	for i := 0; i < steps; i++ {
		wRestart, wClean, wReuse, wOver := 0, 0, 0, 0
		if s.p.Restarts {
			wRestart = 1
		}
		if s.p.Clean {
			wClean = 2
		}
		if s.p.Reuse {
			wReuse = 1
		}
		if s.p.Overwrite {
			wOver = 1
		}
		wConc := 0
		if s.p.Concurrent {
			wConc = 6
		}
		switch s.t.Weighted("action", 12, 3, 3, 2, 3, 2, wRestart, wClean, wReuse, wOver, wConc) {
		case 0:
			s.stepSend()
		case 1:
			s.w.Settle()
			s.w.restamp()
			s.observeSettled()
		case 2:
			s.checkQuery()
		case 3:
			s.checkPollAny()
		case 4:
			d := waits[s.t.Pick("wait", len(waits))]
			lw := 14
			if s.p.Prop == "C20" {
				lw = 3
			}
			if s.p.LongWaits && s.t.Weighted("long", lw, 1) == 1 {
				d = 25 * time.Hour
				s.t.Class("advance-25h")
			}
			s.t.Note("#%d advance %v", s.w.step, d)
			s.AdvanceChecked(d)
			s.observeSettled()
		case 5:
			s.checkScan()
		case 6:
			s.w.Restart()
			s.t.Class("restart")
			s.observeSettled()
		case 7:
			s.stepClean()
		case 8:
			s.stepReuse()
		case 9:
			s.stepOverwrite()
		case 10:
			s.stepConcurrent()
		}
		s.observe()
	}
}

// AdvanceChecked lets simulated time pass; the periodic cleaner (every 30
// minutes) may run meanwhile, so the staging area is compared as for an
// explicit cleaning call.
func (s *Scenario) AdvanceChecked(d time.Duration) {
	if d < 30*time.Minute {
		s.w.Advance(d)
		return
	}
	s.w.Settle()
	s.observe()
	s.w.restamp()
	before := s.snapshotStage()
	s.w.Advance(d)
	s.w.cleans = append(s.w.cleans, time.Now())
	s.checkClean(before)
}

func (s *Scenario) stepClean() {
	if s.t.Weighted("cleanKind", 3, 1) == 0 {
		before := s.snapshotStage()
		s.t.Note("#%d CleanNow", s.w.step)
		s.w.st.CleanNow()
		s.w.cleans = append(s.w.cleans, time.Now())
		s.checkClean(before)
	} else {
		// directory times are written by the kernel in real time; bring them
		// to simulated time first (nothing may run in between)
		s.w.Settle()
		s.observe()
		s.w.restamp()
		before := s.snapshotStage()
		age := []time.Duration{0, time.Hour, 24 * time.Hour}[s.t.Pick("pruneAge", 3)]
		s.t.Note("#%d Prune(%v)", s.w.step, age)
		s.w.st.Prune(age)
		s.checkPrune(before, age)
		s.checkClean(before)
	}
	s.t.Class("clean")
}

// Finish plays the sender's part to the end: ask what is missing, send it
// without faults, wait; then every honest current version must be delivered.
func (s *Scenario) pendingDeliverable() bool {
	for _, fs := range s.files {
		v := fs.cur
		if !v.Liar() && s.w.arrivedCount(v) == 0 && s.deliverable(v, 0) {
			return true
		}
	}
	return false
}

func (s *Scenario) Finish() {
	longWaited := false
	for round := 0; round < 6; round++ {
		s.w.Settle()
		s.w.restamp()
		s.observeSettled()
		if !s.pendingDeliverable() {
			break
		}
		progress := false
		for _, fs := range s.files {
			v := fs.cur
			if v.Liar() || s.w.arrivedCount(v) > 0 {
				continue
			}
			st := s.w.Poll(v)
			if st == sts.ConfirmPassed || st == sts.ConfirmWaiting {
				continue
			}
			// (re)send whatever the receiver does not report holding
			for _, ps := range tile(v, s.psize) {
				if s.w.Query([]PartSpec{ps}) == 1 {
					continue
				}
				s.w.Request([]PartSpec{ps})
				progress = true
				s.observe()
			}
		}
		s.w.Settle()
		s.observe()
		s.w.Advance(11 * time.Second)
		s.observe()
		if !progress && s.pendingDeliverable() && !longWaited {
			// the periodic cleaner (cycles) and the slower retries
			s.w.Advance(31 * time.Minute)
			s.observe()
			longWaited = true
		}
	}
	s.w.Settle()
	s.observeSettled()
	s.finalChecks()
}

func (s *Scenario) Close() {
	for k, n := range s.w.others {
		s.t.Note("other monitor hit: %s x%d", k, n)
	}
	s.w.Close()
}

package stagex

import (
	"bytes"
	"fmt"
	"os"
	"path/filepath"
	"runtime/pprof"
	"sort"
	"strings"
	"testing"
	"time"

	"github.com/arm-doe/sts"
	"verif/harness/vt"
)

type SimProfile struct {
	Prop        string
	Faults      bool
	PollFaults  bool
	Mutations   bool // source files rewritten / added during the run
	RestartR    bool
	CrashS      bool
	MaxSteps    int
	MaxFiles    int
	AllowDelete bool
	QuietBound  time.Duration
}

func genSimConf(t *vt.T, p SimProfile) SimConf {
	c := SimConf{
		Threads:      t.IntRange("threads", 1, 4),
		ChunkSize:    int64(t.IntRange("chunkSize", 3, 40)),
		PayloadSize:  int64(t.IntRange("payloadSize", 10, 80)),
		PollDelay:    time.Duration(t.IntRange("pollDelayMs", 1, 2000)) * time.Millisecond,
		PollInterval: time.Duration(t.IntRange("pollIntervalMs", 100, 3000)) * time.Millisecond,
		PollAttempts: t.IntRange("pollAttempts", 1, 4),
		PollMaxCount: t.IntRange("pollMaxCount", 1, 5),
		ScanDelay:    time.Duration(t.IntRange("scanDelayS", 1, 6)) * time.Second,
		Order:        t.OneOf("order", sts.OrderFIFO, sts.OrderLIFO, sts.OrderNone, sts.OrderAlpha),
		Groups:       t.IntRange("groups", 1, 3),
		CacheAge:     time.Hour,
	}
	if p.AllowDelete && t.Bool("delete") {
		c.Delete = true
		if t.Weighted("deleteDelay", 2, 1) == 1 {
			c.DeleteDelay = time.Duration(t.IntRange("deleteDelayS", 1, 30)) * time.Second
		}
	}
	return c
}

func (s *Sim) names() []string {
	var out []string
	for n := range s.versions {
		out = append(out, n)
	}
	sort.Strings(out)
	return out
}

func (s *Sim) drawFault(t *vt.T, r *req, p SimProfile) Fault {
	if !p.Faults {
		return Fault{}
	}
	switch r.kind {
	case "data":
		k := t.Weighted("dataFault", 12, 2, 2, 2, 2, 1)
		f := Fault{Kind: []int{XOK, XRefuse, XLostAnswer, XPartial, XCut, XFlip}[k]}
		if f.Kind == XPartial || f.Kind == XCut || f.Kind == XFlip {
			f.K = t.IntRange("faultPart", 0, 7)
			f.J = int64(t.IntRange("faultByte", 0, 63))
		}
		return f
	case "poll":
		if !p.PollFaults {
			return Fault{}
		}
		return Fault{Kind: []int{XOK, XRefuse, XLostAnswer}[t.Weighted("pollFault", 8, 1, 1)]}
	default:
		return Fault{Kind: []int{XOK, XRefuse}[t.Weighted("ctlFault", 6, 1)]}
	}
}

var simWaits = []time.Duration{time.Millisecond, 50 * time.Millisecond, time.Second, 3 * time.Second, 10 * time.Second}

func runSim(t *vt.T, p SimProfile) *Sim {
	conf := genSimConf(t, p)
	s := NewSim(t, p.Prop, conf)
	t.Note("conf: threads=%d chunk=%d payload=%d poll(delay=%v interval=%v attempts=%d max=%d) scan=%v order=%q delete=%v/%v groups=%d",
		conf.Threads, conf.ChunkSize, conf.PayloadSize, conf.PollDelay, conf.PollInterval, conf.PollAttempts, conf.PollMaxCount, conf.ScanDelay, conf.Order, conf.Delete, conf.DeleteDelay, conf.Groups)
	nf := t.IntRange("nFiles", 1, p.MaxFiles)
	sizes := func(label string) int {
		c, pl := int(conf.ChunkSize), int(conf.PayloadSize)
		opts := []int{1, 2, c - 1, c, c + 1, 2 * c, pl, pl + 1, 2*pl + 3, 3 * c}
		n := opts[t.Pick(label, len(opts))]
		if n < 1 {
			n = 1
		}
		return n
	}
	for i := 0; i < nf; i++ {
		name := fmt.Sprintf("g%d/f%d.dat", t.Pick("group", conf.Groups), i)
		s.WriteSource(name, sizes("size"), time.Duration(10+nf-i)*time.Minute)
	}
	s.StartSender()
	steps := t.IntRange("nSteps", 1, p.MaxSteps)
	for i := 0; i < steps; i++ {
		pend := s.Pending()
		wServe, wMut, wRR, wCS := 0, 0, 0, 0
		if len(pend) > 0 {
			wServe = 12
		}
		if p.Mutations {
			wMut = 2
		}
		if p.RestartR {
			wRR = 1
		}
		if p.CrashS {
			wCS = 1
		}
		switch t.Weighted("action", wServe, 4, wMut, wRR, wCS) {
		case 0:
			r := pend[t.Pick("which", len(pend))]
			if len(pend) > 1 {
				t.Class("choice-among-pending")
			}
			s.Serve(r, s.drawFault(t, r, p))
		case 1:
			d := simWaits[t.Pick("wait", len(simWaits))]
			time.Sleep(d)
		case 2:
			s.mutate(t, sizes)
		case 3:
			t.Note("@%s receiver restart", s.clock())
			s.RestartReceiver()
			t.Class("receiver-restart")
		case 4:
			s.CrashSender()
			if t.Bool("mutateWhileDown") && p.Mutations {
				s.mutate(t, sizes)
			}
			s.StartSender()
			t.Class("sender-crash")
		}
		s.observe()
	}
	return s
}

func (s *Sim) mutate(t *vt.T, sizes func(string) int) {
	names := s.names()
	switch t.Weighted("mutation", 2, 3, 1) {
	case 0: // new file
		name := fmt.Sprintf("g%d/n%d.dat", t.Pick("group", s.conf.Groups), len(names))
		s.WriteSource(name, sizes("size"), time.Second)
		t.Class("file-added")
	case 1: // rewrite with fresh content (same or different size)
		name := names[t.Pick("rewrite", len(names))]
		size := sizes("size")
		if t.Bool("sameSize") {
			if v := s.lastVersion(name); v != nil {
				size = len(v.data)
			}
		}
		s.WriteSource(name, size, 0)
		t.Class("file-rewritten")
	case 2: // touch
		name := names[t.Pick("touch", len(names))]
		p := filepath.Join(s.srcDir, name)
		if _, err := os.Stat(p); err == nil {
			now := time.Now()
			if last, ok := s.lastMtime[name]; ok && !now.After(last) {
				now = last.Add(time.Millisecond)
			}
			s.lastMtime[name] = now
			os.Chtimes(p, now, now)
			if v := s.lastVersion(name); v != nil {
				// a touched file counts as changed: it is hashed and sent again
				s.mu.Lock()
				s.retransAllowed[name+"|"+v.hash] = true
				s.mu.Unlock()
			}
			t.Note("@%s touch %s", s.clock(), name)
			t.Class("file-touched")
			s.lastPerturb = time.Now()
		}
	}
}

// Quiesce: failure-free period; returns true when everything is delivered,
// confirmed and recorded within the bound.
func (s *Sim) Quiesce(bound time.Duration) bool {
	start := time.Now()
	for time.Since(start) < bound {
		s.Pump(0)
		if s.allDone() {
			return true
		}
		if s.senderIdle() {
			break
		}
		time.Sleep(500 * time.Millisecond)
	}
	// the sender has nothing left to do: what remains is the receiver's own
	// business (predecessor retries every 10 s, cycle release by the cleaner
	// every 30 minutes); simulated time is cheap, take big steps
	for i := 0; i < 16 && !s.allDone(); i++ {
		time.Sleep(5 * time.Minute)
		s.Pump(0)
		s.observe()
	}
	s.Pump(0)
	return s.allDone()
}

// senderIdle: every file of the source directory is confirmed (or gone) and no request is pending.
func (s *Sim) senderIdle() bool {
	if len(s.pendingNow()) > 0 {
		return false
	}
	for _, name := range s.names() {
		if _, err := os.Stat(filepath.Join(s.srcDir, name)); err != nil {
			continue
		}
		c := s.broker.Conf.Cache.Get(name)
		v := s.lastVersion(name)
		if c == nil || !c.IsDone() || c.GetHash() != v.hash {
			return false
		}
	}
	return true
}

func (s *Sim) allDone() bool {
	for _, name := range s.names() {
		s.mu.Lock()
		tainted := s.tainted[name]
		s.mu.Unlock()
		if tainted {
			continue // released on a wrong confirmation (counted under C02); it will never be sent
		}
		v := s.lastVersion(name)
		if !s.delivered(name, v.hash) {
			return false
		}
		c := s.broker.Conf.Cache.Get(name)
		_, statErr := os.Stat(filepath.Join(s.srcDir, name))
		if s.conf.Delete && s.conf.DeleteDelay == 0 {
			if statErr == nil {
				return false
			}
		} else if c == nil || !c.IsDone() {
			if !(s.conf.Delete && statErr != nil) {
				return false
			}
		}
	}
	return len(s.pendingNow()) == 0
}

func (s *Sim) pendingNow() []*req {
	s.mu.Lock()
	defer s.mu.Unlock()
	return append([]*req{}, s.pending...)
}

func (s *Sim) delivered(name, hash string) bool {
	for _, a := range s.w.arrivals {
		if a.Ver != nil && a.Ver.Name == name && a.MD5 == hash {
			return true
		}
	}
	return false
}

func (s *Sim) stuckReport() string {
	var sb strings.Builder
	for _, name := range s.names() {
		v := s.lastVersion(name)
		c := s.broker.Conf.Cache.Get(name)
		cs := "absent"
		if c != nil {
			cs = fmt.Sprintf("hash=%.6s done=%v", c.GetHash(), c.IsDone())
		}
		_, statErr := os.Stat(filepath.Join(s.srcDir, name))
		fmt.Fprintf(&sb, "%s: version %.6s delivered=%v cache[%s] source-present=%v poll=%s; ", name, v.hash, s.delivered(name, v.hash), cs, statErr == nil,
			statusName(s.w.st.GetFileStatus(name, time.Now().Add(-time.Hour))))
	}
	fmt.Fprintf(&sb, "staging=%v pending=%d", keysOf(s.w.StageFiles()), len(s.pendingNow()))
	return sb.String()
}

// wireTiling: in a run without failures every byte of every delivered version
// crossed the wire exactly once (C11 end to end).
func (s *Sim) checkWireTiling() {
	by := map[string][]rng{}
	for _, wp := range s.wire {
		k := wp.name + "|" + wp.hash
		by[k] = append(by[k], rng{wp.beg, wp.end})
	}
	for k, rs := range by {
		parts := strings.SplitN(k, "|", 2)
		v := s.versionByHash(parts[0], parts[1])
		if v == nil {
			continue
		}
		sort.Slice(rs, func(i, j int) bool { return rs[i].b < rs[j].b })
		pos := int64(0)
		for _, r := range rs {
			if r.b != pos || r.e <= r.b {
				s.viol("C11", "wire-parts-not-tiling", "failure-free run: parts of %s#%.6s on the wire are %v (gap, overlap or empty part at %d)", parts[0], parts[1], rs, pos)
				return
			}
			if r.e-r.b > s.conf.ChunkSize {
				s.viol("C11", "wire-part-exceeds-chunk", "part [%d,%d) of %s exceeds the chunk size %d", r.b, r.e, parts[0], s.conf.ChunkSize)
			}
			pos = r.e
		}
		if s.delivered(parts[0], parts[1]) && pos != int64(len(v.data)) {
			s.viol("C11", "wire-parts-not-covering", "failure-free run: parts of %s#%.6s on the wire end at %d, size %d", parts[0], parts[1], pos, len(v.data))
		}
	}
}

// checkEconomy: a part the receiver acknowledged is not transmitted again
// unless a verdict, a give-up or a changed file calls for it (C08 / C07).
func (s *Sim) checkEconomy(prop string) {
	// a part the sender was told is on record (200 answer, 206 part count,
	// recovery answer) is not transmitted again by the same sender process
	// unless a failed / missing verdict or a corrupted copy calls for it
	for _, wp := range s.wire {
		if s.retransAllowed[wp.name+"|"+wp.hash] {
			continue
		}
		for _, o := range s.told {
			if o.seq < wp.seq && o.gen == wp.gen && o.name == wp.name && o.hash == wp.hash && o.beg < wp.end && wp.beg < o.end {
				// the transmission that produced the telling itself has a smaller seq than the telling; a later one is a re-send
				resend := false
				for _, w2 := range s.wire {
					if w2.seq < o.seq && w2.name == wp.name && w2.hash == wp.hash && w2.beg == wp.beg && w2.end == wp.end && w2.seq != wp.seq {
						resend = true
					}
				}
				if resend || wp.seq > o.seq {
					s.viol(prop, "acknowledged-part-sent-again", "part [%d,%d) of %s#%.6s was transmitted again (sender generation %d) although the sender had been told that [%d,%d) is on the receiver's record and no failed or missing verdict intervened",
						wp.beg, wp.end, wp.name, wp.hash, wp.gen, o.beg, o.end)
					return
				}
			}
		}
	}
}

func simNonTrivial(s *Sim, t *vt.T) {
	multi := false
	for _, vs := range s.versions {
		for _, v := range vs {
			if int64(len(v.data)) > s.conf.ChunkSize || int64(len(v.data)) > s.conf.PayloadSize {
				multi = true
			}
		}
	}
	if multi {
		t.Class("multi-part-file")
	}
	if s.conf.Threads > 1 {
		t.Class("multi-thread")
	}
	for k, n := range s.faultKinds {
		if n > 0 {
			t.Class(fmt.Sprintf("xfault-%d", k))
		}
	}
}

// C11 end to end: failure-free runs tile every file on the wire; C01 arrivals.
func TestC11Sim(t *testing.T) {
	vt.CheckBubble(t, "C11", func(t *vt.T) {
		p := SimProfile{Prop: "C11", MaxSteps: 30, MaxFiles: 6, AllowDelete: true}
		s := runSim(t, p)
		defer s.Close()
		ok := s.Quiesce(3 * time.Minute)
		s.observe()
		simNonTrivial(s, t)
		if !ok {
			s.viol("C03", "not-delivered-in-failure-free-run", "failure-free run did not finish within 3 simulated minutes: %s", s.stuckReport())
			return
		}
		s.checkWireTiling()
		if t.HasClass("multi-part-file") {
			t.NonTrivial()
		}
	})
}

// C03: after arbitrary transient failures and restarts, a quiet period delivers everything.
func TestC03Sim(t *testing.T) {
	vt.CheckBubble(t, "C03", func(t *vt.T) {
		p := SimProfile{Prop: "C03", Faults: true, PollFaults: true, Mutations: t.Bool("mutations"), RestartR: true, CrashS: true,
			MaxSteps: 60, MaxFiles: 6, AllowDelete: true}
		s := runSim(t, p)
		defer s.Close()
		c := s.conf
		bound := 4*(c.ScanDelay+c.PollDelay+time.Duration(c.PollAttempts)*c.PollInterval) + 10*time.Minute
		ok := s.Quiesce(bound)
		s.observe()
		simNonTrivial(s, t)
		kinds := 0
		for _, n := range s.faultKinds {
			if n > 0 {
				kinds++
			}
		}
		if s.faults >= 2 && kinds >= 2 {
			t.NonTrivial()
		}
		if !ok {
			key := "stuck-after-quiet-period"
			// signature: a version whose every byte was acknowledged but that was never logged as sent / polled
			for _, name := range s.names() {
				v := s.lastVersion(name)
				c := s.broker.Conf.Cache.Get(name)
				if s.tainted[name] || c == nil || c.IsDone() {
					continue
				}
				var acked []rng
				nvers := map[string]bool{}
				for _, wp := range s.wire {
					if wp.name == name {
						nvers[wp.hash] = true
						if wp.hash == v.hash {
							acked = append(acked, rng{wp.beg, wp.end})
						}
					}
				}
				sentLogged := false
				for _, r := range s.sentRecs {
					if r == name+"|"+v.hash {
						sentLogged = true
					}
				}
				if covered(acked, 0, int64(len(v.data))) && !sentLogged && len(nvers) >= 2 {
					key = "stuck-two-versions-of-a-name-in-flight-never-polled"
				}
				// variant: the newest version was logged as sent, but a part of an OLDER version of the
				// name went over the wire after the newest version's first part (both in flight); the
				// poll entry for the name then belongs to the older version and its verdict is ignored
				if covered(acked, 0, int64(len(v.data))) && sentLogged && len(nvers) >= 2 {
					firstNew, lastOld := 1<<62, -1
					for _, wp := range s.wire {
						if wp.name != name {
							continue
						}
						if wp.hash == v.hash && wp.seq < firstNew {
							firstNew = wp.seq
						}
						if wp.hash != v.hash && wp.seq > lastOld {
							lastOld = wp.seq
						}
					}
					if lastOld > firstNew {
						key = "stuck-two-versions-of-a-name-in-flight-poll-belongs-to-older-version"
					}
				}
				// variant: a chunk cut for the older version's size is still queued when the file is
				// hashed again; it goes out under the NEW hash and overlaps the new version's own
				// chunks; the receiver's record then holds overlapping ranges (see C09's finding about
				// overlapping parts) and the file is sent whole again and again without completing
				if key == "stuck-after-quiet-period" && len(nvers) >= 2 {
					var mine []rng
					for _, wp := range s.wire {
						if wp.name == name && wp.hash == v.hash {
							mine = append(mine, rng{wp.beg, wp.end})
						}
					}
					for i := range mine {
						for j := range mine {
							if mine[i] != mine[j] && mine[i].b < mine[j].e && mine[j].b < mine[i].e {
								key = "stuck-chunk-of-older-layout-sent-under-new-hash"
							}
						}
					}
				}
			}
			s.viol("C03", key, "after the last perturbation the system was left alone for %v of simulated time, yet: %s", bound, s.stuckReport())
		}
	})
}

// C02: the sender releases a file only when the receiver holds a validated copy of its current content.
func TestC02Sim(t *testing.T) {
	vt.CheckBubble(t, "C02", func(t *vt.T) {
		p := SimProfile{Prop: "C02", Faults: t.Bool("faults"), PollFaults: true, Mutations: true, RestartR: t.Bool("restartR"), CrashS: t.Bool("crashS"),
			MaxSteps: 70, MaxFiles: 4, AllowDelete: true}
		s := runSim(t, p)
		defer s.Close()
		s.Quiesce(2 * time.Minute)
		s.observe()
		simNonTrivial(s, t)
		if len(s.releases) > 0 && (t.HasClass("file-rewritten") || t.HasClass("sender-crash") || s.faultKinds[XRefuse]+s.faultKinds[XLostAnswer] > 0) {
			t.NonTrivial()
		}
		// end state: no source file is missing unless an identical copy arrived
		for _, name := range s.names() {
			if _, err := os.Stat(filepath.Join(s.srcDir, name)); err != nil && !s.tainted[name] {
				v := s.lastVersion(name)
				if !s.receiverHoldsValidated(name, v.hash) {
					s.viol("C02", "source-gone-without-validated-copy", "%s no longer exists at the source although the receiver holds no validated copy of its last content %.6s", name, v.hash)
				}
			}
		}
	})
}

// C08: only acknowledged parts count as sent; the remainder and only the remainder is sent again.
func TestC08Sim(t *testing.T) {
	vt.CheckBubble(t, "C08", func(t *vt.T) {
		p := SimProfile{Prop: "C08", Faults: true, PollFaults: false, MaxSteps: 60, MaxFiles: 5}
		s := runSim(t, p)
		defer s.Close()
		ok := s.Quiesce(5 * time.Minute)
		s.observe()
		simNonTrivial(s, t)
		if s.faultKinds[XPartial]+s.faultKinds[XCut]+s.faultKinds[XLostAnswer] > 0 && t.HasClass("multi-part-file") {
			t.NonTrivial()
		}
		s.checkEconomy("C08")
		if !ok {
			s.viol("C08", "part-abandoned", "after the failures stopped, not every part was sent: %s", s.stuckReport())
		}
	})
}

// ---------------------------------------------------------------------------
// C07: sender crash at an action boundary

func (s *Sim) checkRestartEconomy() {
	for _, wp := range s.wire {
		if s.retransAllowed[wp.name+"|"+wp.hash] {
			continue
		}
		k := wp.name + "|" + wp.hash
		if l := s.listedAt[wp.gen]; l != nil {
			for _, r := range l[k] {
				if r.b < wp.end && wp.beg < r.e {
					s.viol("C07", "resent-range-listed-as-held", "after its restart (generation %d) the sender transmitted [%d,%d) of %s#%.6s although the receiver had listed [%d,%d) of that version as held",
						wp.gen, wp.beg, wp.end, wp.name, wp.hash, r.b, r.e)
					return
				}
			}
		}
		if h := s.heldAt[wp.gen]; h != nil && h[k] {
			key := "resent-delivered-file"
			if l := s.listedAt[wp.gen]; l != nil && len(l[k]) > 0 {
				// the receiver itself listed a (stray) partial of the delivered version, and the
				// sender sent what that listing showed as missing
				key = "resent-delivered-file-listed-as-stray-partial"
			}
			if s.viol("C07", key, "after its restart (generation %d) the sender transmitted [%d,%d) of %s#%.6s although that version had been delivered before the restart (ranges of it the receiver listed as partly received at that restart: %v)",
				wp.gen, wp.beg, wp.end, wp.name, wp.hash, s.listedAt[wp.gen][k]) {
				continue
			}
			return
		}
	}
	// sent log: one record per confirmed version, two only around a crash
	cnt := map[string]int{}
	for _, r := range s.sentRecs {
		cnt[r]++
	}
	for k, n := range cnt {
		if n > 1+s.restartsS && !s.retransAllowed[k] {
			s.viol("C07", "sent-log-repeats", "%s has %d records in the sent log (sender crashes: %d)", k, n, s.restartsS)
		}
	}
	// ... and at least one: whatever was released (marked done, deleted) as confirmed is on record
	// in the sent log, whichever sender generation wrote it
	for _, r := range s.releases {
		if r.hash == "" || s.tainted[r.name] {
			continue
		}
		if cnt[r.name+"|"+r.hash] == 0 {
			s.viol("C07", "released-without-sent-log-record", "the sender %s %s (content %.6s) as confirmed, but its sent log has no record of that version (sender crashes: %d)", r.kind, r.name, r.hash, s.restartsS)
			return
		}
	}
}

func TestC07Sim(t *testing.T) {
	vt.CheckBubble(t, "C07", func(t *vt.T) {
		p := SimProfile{Prop: "C07", Faults: t.Weighted("faults", 2, 1) == 1, PollFaults: false, Mutations: t.Weighted("staleCache", 2, 1) == 1,
			MaxSteps: 50, MaxFiles: 6, AllowDelete: true}
		conf := genSimConf(t, p)
		s := NewSim(t, p.Prop, conf)
		defer s.Close()
		nf := t.IntRange("nFiles", 1, p.MaxFiles)
		sizes := func(label string) int {
			c, pl := int(conf.ChunkSize), int(conf.PayloadSize)
			opts := []int{1, c, c + 1, 2 * c, pl + 1, 2*pl + 3, 4 * pl}
			return opts[t.Pick(label, len(opts))]
		}
		for i := 0; i < nf; i++ {
			s.WriteSource(fmt.Sprintf("g%d/f%d.dat", t.Pick("group", conf.Groups), i), sizes("size"), time.Duration(10+nf-i)*time.Minute)
		}
		s.crashAt = t.IntRange("crashAtAction", 1, 160)
		if t.Weighted("aimedCrash", 1, 1) == 1 {
			// aim at the boundary before / after the n-th action of one kind, so that rare
			// boundaries (around the delete, the done-marking, the sent log) get their share
			kinds := []string{"remove", "remove", "cache-persist", "cache-done", "cache-persist", "sent-log", "request poll", "request data", "request recover", "cache-add", "open", "scan"}
			s.crashAt = 0
			s.crashKind = kinds[t.Pick("crashKind", len(kinds))]
			s.crashNth = t.IntRange("crashNth", 1, 6)
			s.crashAfter = t.Bool("crashAfter")
			t.Note("aimed crash: %s the %d. %q action", map[bool]string{true: "after", false: "before"}[s.crashAfter], s.crashNth, s.crashKind)
			if s.crashAfter {
				t.Class("crash-after:" + strings.SplitN(s.crashKind, " ", 2)[0])
			}
		}
		s.StartSender()
		crashes := 0
		steps := t.IntRange("nSteps", 10, 120)
		for i := 0; i < steps; i++ {
			pend := s.Pending()
			if s.needRestart {
				lab := s.crashedAt
				s.CrashSender()
				crashes++
				t.Note("   (crash at action %d: %s)", s.actions, lab)
				t.Class("crash-before:" + strings.SplitN(lab, " ", 2)[0])
				// between transmission and confirmation?
				if len(s.wire) > 0 && !s.allDone() {
					t.NonTrivial()
				}
				if p.Mutations && t.Bool("mutateWhileDown") {
					s.mutate(t, sizes)
					t.Class("cache-stale-at-restart")
				}
				if t.Weighted("crashAgain", 3, 1) == 1 {
					s.crashAt = s.actions + t.IntRange("nextCrashIn", 1, 30)
					t.Class("second-crash")
				} else {
					s.crashAt = 0
				}
				s.StartSender()
				continue
			}
			if len(pend) > 0 && t.Weighted("serve", 1, 5) == 1 {
				r := pend[t.Pick("which", len(pend))]
				s.Serve(r, s.drawFault(t, r, p))
			} else {
				time.Sleep(simWaits[t.Pick("wait", len(simWaits))])
			}
			s.observe()
		}
		s.mu.Lock()
		s.crashAt, s.crashKind = 0, ""
		s.mu.Unlock()
		if s.needRestart {
			s.CrashSender()
			s.StartSender()
		}
		ok := s.Quiesce(5 * time.Minute)
		s.observe()
		simNonTrivial(s, t)
		if crashes == 0 {
			t.Class("no-crash-reached")
		}
		if !ok {
			s.viol("C07", "not-completed-after-sender-crash", "after the sender crash(es) and a quiet period not everything is delivered and confirmed: %s", s.stuckReport())
		}
		s.checkRestartEconomy()
	})
}

// ---------------------------------------------------------------------------
// C16: stops

func TestC16Sim(t *testing.T) {
	vt.CheckBubble(t, "C16", func(t *vt.T) {
		p := SimProfile{Prop: "C16", Faults: t.Weighted("faults", 2, 1) == 1, PollFaults: true, MaxSteps: 60, MaxFiles: 8, AllowDelete: true}
		conf := genSimConf(t, p)
		s := NewSim(t, p.Prop, conf)
		defer s.Close()
		nf := t.IntRange("nFiles", 1, p.MaxFiles)
		sizes := func(label string) int {
			c, pl := int(conf.ChunkSize), int(conf.PayloadSize)
			opts := []int{1, c, c + 1, 2 * c, pl + 1, 2*pl + 3, 5 * pl}
			return opts[t.Pick(label, len(opts))]
		}
		for i := 0; i < nf; i++ {
			s.WriteSource(fmt.Sprintf("g%d/f%d.dat", t.Pick("group", conf.Groups), i), sizes("size"), time.Duration(10+nf-i)*time.Minute)
		}
		graceful := t.Weighted("graceful", 1, 2) == 1
		oneShot := t.Weighted("oneShot", 3, 1) == 1
		s.StartSender()
		if !oneShot {
			steps := t.IntRange("stepsBeforeStop", 0, p.MaxSteps)
			for i := 0; i < steps; i++ {
				pend := s.Pending()
				if len(pend) > 0 && t.Weighted("serve", 1, 5) == 1 {
					r := pend[t.Pick("which", len(pend))]
					s.Serve(r, s.drawFault(t, r, p))
				} else {
					time.Sleep(simWaits[t.Pick("wait", len(simWaits))])
				}
				s.observe()
			}
		} else {
			t.Class("one-shot")
		}
		inFlight := len(s.Pending()) > 0
		awaiting := false
		for _, name := range s.names() {
			c := s.broker.Conf.Cache.Get(name)
			if c != nil && !c.IsDone() {
				awaiting = true
			}
		}
		if inFlight || awaiting {
			t.NonTrivial()
		}
		if inFlight {
			t.Class("stop-with-request-in-flight")
		}
		if t.Weighted("flipAfterStop", 3, 1) == 1 {
			// validation failures in flight while stopping: more than the retry channel holds
			s.flipsAfterStop = t.IntRange("nFlips", 1, 12)
			t.Class("validation-failures-after-stop")
		}
		if !graceful && t.Weighted("networkDownAfterStop", 2, 1) == 1 {
			s.refuseAfterStop = true
			t.Class("immediate-stop-with-every-request-refused")
		}
		flips := s.flipsAfterStop
		t.Note("@%s STOP graceful=%v (pending requests: %d, data requests to be corrupted afterwards: %d)", s.clock(), graceful, len(s.Pending()), flips)
		bound := 30 * time.Second
		if graceful {
			t.Class("graceful")
			c := s.conf
			bound = 4*(c.ScanDelay+c.PollDelay+time.Duration(c.PollAttempts)*c.PollInterval) + 20*time.Minute
		} else {
			t.Class("immediate")
		}
		if !s.StopSender(graceful, bound) {
			s.viol("C16", "stop-does-not-terminate", "%s stop requested at %s; Start had not returned after %v of simulated time (requests served without faults meanwhile); pending requests: %d; sender goroutines: %s",
				map[bool]string{true: "graceful", false: "immediate"}[graceful], s.clock(), bound, len(s.pendingNow()), brokerStacks())
			return
		}
		s.observe()
		t.Note("@%s Start returned", s.clock())
		// nothing confirmed may be missing from the persisted cache
		persisted, err := cacheReload(s)
		if err != nil {
			s.viol("C16", "cache-unreadable-after-stop", "the queue cache cannot be read after the stop: %v", err)
			return
		}
		for k := range s.positivePolls {
			parts := strings.SplitN(k, "|", 2)
			name, hash := parts[0], parts[1]
			if s.tainted[name] {
				continue
			}
			if v := s.lastVersion(name); v == nil || v.hash != hash {
				continue
			}
			c := persisted.Get(name)
			_, statErr := os.Stat(filepath.Join(s.srcDir, name))
			if c == nil {
				if statErr == nil {
					s.viol("C16", "confirmed-file-missing-from-cache", "%s#%.6s was confirmed to the sender, but after the stop the persisted cache has no entry for it (file still present)", name, hash)
				}
				continue
			}
			if c.GetHash() == hash && !c.IsDone() && graceful {
				s.viol("C16", "confirmation-not-recorded", "%s#%.6s was confirmed to the sender before it exited gracefully, but the persisted queue cache does not mark it done", name, hash)
			}
		}
		if graceful && !p.Faults && flips == 0 {
			// everything the scans found is transmitted and confirmed
			for _, name := range s.names() {
				v := s.lastVersion(name)
				if !s.delivered(name, v.hash) && !s.receiverHoldsValidated(name, v.hash) {
					s.viol("C16", "graceful-stop-left-work-undone", "after a graceful stop without failures %s#%.6s is neither delivered nor held validated: %s", name, v.hash, s.stuckReport())
				}
			}
		}
	})
}

// brokerStacks summarises where the sender's goroutines are (diagnostics).
func brokerStacks() string {
	var buf bytes.Buffer
	pprof.Lookup("goroutine").WriteTo(&buf, 1)
	var out []string
	for _, blk := range strings.Split(buf.String(), "\n\n") {
		if !strings.Contains(blk, "client.(*Broker)") {
			continue
		}
		var fn []string
		for _, ln := range strings.Split(blk, "\n") {
			if i := strings.Index(ln, "client.(*Broker)."); i >= 0 {
				f := ln[i+len("client.(*Broker)."):]
				if j := strings.IndexAny(f, "+ \t"); j > 0 {
					f = f[:j]
				}
				fn = append(fn, f)
			}
		}
		if len(fn) > 0 {
			out = append(out, strings.Join(fn, "<"))
			if os.Getenv("VT_VERBOSE") != "" {
				println(blk)
			}
		}
	}
	sort.Strings(out)
	return strings.Join(out, " | ")
}

// ---------------------------------------------------------------------------
// C17: histories of source files (appear, rewrite, append, touch, replace by an
// older file) between and during scans, hashing and transmission.

func (s *Sim) writeOlder(t *vt.T, name string) {
	v := s.lastVersion(name)
	if v == nil {
		return
	}
	data := s.content(len(v.data)) // same size, other bytes
	p := filepath.Join(s.srcDir, name)
	tmp := p + ".mv.lck"
	os.WriteFile(tmp, data, 0644)
	// an older file moved into place: modification time earlier than any this name had
	tm := s.lastMtime[name]
	if e, ok := s.earliest[name]; ok {
		tm = e
	}
	tm = tm.Add(-time.Duration(1+t.IntRange("olderBy", 0, 3600)) * time.Second)
	s.earliest[name] = tm
	os.Chtimes(tmp, tm, tm)
	os.Rename(tmp, p)
	nv := &srcVersion{name: name, data: data, hash: md5hex(data), at: time.Now()}
	s.mu.Lock()
	s.versions[name] = append(s.versions[name], nv)
	s.mu.Unlock()
	s.w.mu.Lock()
	s.w.AddVersion(&Version{Name: name, Data: data, Time: tm})
	s.w.mu.Unlock()
	s.t.Note("@%s source %s <- version %s (%d bytes) moved into place with an EARLIER time", s.clock(), name, nv.hash[:6], len(data))
	s.lastPerturb = time.Now()
}

func TestC17Sim(t *testing.T) {
	vt.CheckBubble(t, "C17", func(t *vt.T) {
		p := SimProfile{Prop: "C17", Mutations: true, MaxSteps: 70, MaxFiles: 4}
		conf := genSimConf(t, p)
		s := NewSim(t, p.Prop, conf)
		defer s.Close()
		s.earliest = map[string]time.Time{}
		nf := t.IntRange("nFiles", 1, p.MaxFiles)
		sizes := func(label string) int {
			c, pl := int(conf.ChunkSize), int(conf.PayloadSize)
			opts := []int{1, 2, c, c + 1, 2 * c, pl + 1, 2*pl + 3}
			return opts[t.Pick(label, len(opts))]
		}
		for i := 0; i < nf; i++ {
			name := fmt.Sprintf("g%d/f%d.dat", t.Pick("group", conf.Groups), i)
			s.WriteSource(name, sizes("size"), time.Duration(10+nf-i)*time.Minute)
			if t.Weighted("symlink", 3, 1) == 1 {
				s.LinkSource(name) // eligible like any other file (links to files are sent)
				t.Class("symlink-to-file-as-source")
			}
		}
		p.Faults = t.Bool("transportFaults")
		// ineligible files: never transmitted, never deleted
		inel := map[string][]byte{"g0/.hidden.dat": []byte("hidden"), "g0/work.dat.lck": []byte("locked"), "g0/empty.dat": {}, ".hdir/inside.dat": []byte("in hidden dir")}
		for n, b := range inel {
			os.MkdirAll(filepath.Dir(filepath.Join(s.srcDir, n)), 0755)
			os.WriteFile(filepath.Join(s.srcDir, n), b, 0644)
			old := time.Now().Add(-time.Hour)
			os.Chtimes(filepath.Join(s.srcDir, n), old, old)
		}
		s.StartSender()
		steps := t.IntRange("nSteps", 5, p.MaxSteps)
		during := false
		for i := 0; i < steps; i++ {
			pend := s.Pending()
			switch t.Weighted("action", 10, 4, 3, 2) {
			case 0:
				if len(pend) > 0 {
					r := pend[t.Pick("which", len(pend))]
					s.Serve(r, s.drawFault(t, r, p))
				}
			case 1:
				time.Sleep(simWaits[t.Pick("wait", len(simWaits))])
			case 2:
				if len(pend) > 0 {
					during = true // a change while requests are outstanding
				}
				s.mutate(t, sizes)
			case 3:
				names := s.names()
				if len(pend) > 0 {
					during = true
				}
				s.writeOlder(t, names[t.Pick("olderName", len(names))])
				t.Class("replaced-by-older-file")
			}
			s.observe()
		}
		ok := s.Quiesce(4*(conf.ScanDelay+conf.PollDelay+time.Duration(conf.PollAttempts)*conf.PollInterval) + 5*time.Minute)
		s.observe()
		simNonTrivial(s, t)
		if during && (t.HasClass("file-rewritten") || t.HasClass("replaced-by-older-file")) {
			t.NonTrivial()
			t.Class("change-during-transmission")
		}
		if !ok {
			// C17 promises that a changed file is hashed and sent again; whether what was sent is
			// then delivered is C03's subject (see its finding about two versions in flight).
			for _, name := range s.names() {
				v := s.lastVersion(name)
				if s.delivered(name, v.hash) {
					continue
				}
				var got []rng
				for _, wp := range s.wire {
					if wp.name == name && wp.hash == v.hash {
						got = append(got, rng{wp.beg, wp.end})
					}
				}
				if covered(got, 0, int64(len(v.data))) {
					t.Class("sent-again-but-not-delivered")
					continue
				}
				s.viol("C17", "changed-file-not-sent-again", "the source directory was left alone for several scan cycles, yet the current version %.6s of %s was never transmitted in full: %s", v.hash, name, s.stuckReport())
			}
		}
		for n, b := range inel {
			got, err := os.ReadFile(filepath.Join(s.srcDir, n))
			if err != nil || string(got) != string(b) {
				s.viol("C17", "ineligible-file-touched", "ineligible file %s was deleted or modified", n)
			}
			for _, wp := range s.wire {
				if wp.name == n {
					s.viol("C17", "ineligible-file-transmitted", "ineligible file %s was transmitted", n)
				}
			}
		}
		// each version delivered at most once (mixtures are caught by the arrival monitor)
		cnt := map[string]int{}
		for _, a := range s.w.arrivals {
			cnt[a.Target+"|"+a.MD5]++
		}
		// The statement forbids picking an unchanged file up again by a scan; sending again after
		// a failed verdict for that name (whatever version it was about) is C07's subject.
		excused := map[string]bool{}
		for k := range s.retransAllowed {
			excused[k[:strings.LastIndex(k, "|")]] = true
		}
		// ... and so is sending again after a request carrying the file failed in transit: whether
		// the receiver then recognises the duplicate is C05's subject
		// - but only for the version the file had at that time: sending a version again that
		// the file no longer has is not "sending the changed file again"
		faultExcused := func(name, hash string, when time.Time) bool {
			if !s.faultedNames[name] {
				return false
			}
			cur := ""
			for _, v := range s.versions[name] {
				if !v.at.After(when) {
					cur = v.hash
				}
			}
			return cur == hash
		}
		inst := map[string]int{} // a name may return to earlier content: each such version counts
		for name, vs := range s.versions {
			for _, v := range vs {
				inst[name+"|"+v.hash]++
			}
		}
		lastArrival := map[string]time.Time{}
		for _, a := range s.w.arrivals {
			lastArrival[a.Target+"|"+a.MD5] = a.When
		}
		for k, n := range cnt {
			name, hash := k[:strings.LastIndex(k, "|")], k[strings.LastIndex(k, "|")+1:]
			if n > 1 && n > inst[k] && !excused[name] && !faultExcused(name, hash, lastArrival[k]) {
				s.viol("C17", "version-delivered-twice", "%s was delivered %d times although no verdict asked for it again", k, n)
			}
		}
	})
}

// C05 end to end: the retransmissions a real sender produces after lost answers, cuts, refused
// recovery requests, polling give-ups and restarts of either side (no source changes: every
// name has one version) must never lead to a second delivery or a second log record.
func TestC05Sim(t *testing.T) {
	vt.CheckBubble(t, "C05", func(t *vt.T) {
		p := SimProfile{Prop: "C05", Faults: true, PollFaults: true, RestartR: t.Bool("restartR"), CrashS: t.Bool("crashS"), MaxSteps: 60, MaxFiles: 6, AllowDelete: t.Bool("delete")}
		s := runSim(t, p)
		defer s.Close()
		c := s.conf
		s.Quiesce(2*(c.ScanDelay+c.PollDelay+time.Duration(c.PollAttempts)*c.PollInterval) + 5*time.Minute)
		s.observe() // the arrival monitor reports a second delivery / log record (C05) when it sees one
		simNonTrivial(s, t)
		// a retransmission happened: some byte of some version went over the wire twice
		seen := map[string][]rng{}
		again := false
		for _, wp := range s.wire {
			k := wp.name + "|" + wp.hash
			for _, r := range seen[k] {
				if r.b < wp.end && wp.beg < r.e {
					again = true
				}
			}
			seen[k] = append(seen[k], rng{wp.beg, wp.end})
		}
		if again {
			t.NonTrivial()
			t.Class("bytes-retransmitted")
		}
		// end state: per version at most one arrival and (without receiver crashes) one log record
		cnt := map[string]int{}
		for _, a := range s.w.arrivals {
			cnt[a.Target+"|"+a.MD5]++
		}
		for k, n := range cnt {
			if n > 1 {
				s.viol("C05", "delivered-twice", "%s arrived %d times", k, n)
			}
		}
	})
}

// C17, the validation-retry path: a file whose copy failed validation at the receiver is hashed and
// sent again by the sender - unless it changed meanwhile, in which case it is dropped and left to
// the next scan, which applies the eligibility rules (minimum age above all) to what is there now.
// Histories here always have a non-zero minimum age, flip a byte in about every second data
// request, and rewrite / touch files between the transmission and the verdict; the transport
// checks for every part on the wire that the file it was read from had reached the minimum age.
func TestC17Retry(t *testing.T) {
	vt.CheckBubble(t, "C17", func(t *vt.T) {
		p := SimProfile{Prop: "C17", Mutations: true, MaxSteps: 50, MaxFiles: 3}
		conf := genSimConf(t, p)
		conf.MinAge = []time.Duration{20 * time.Second, 2 * time.Minute, 10 * time.Minute, 0}[t.Pick("minAge", 4)]
		s := NewSim(t, p.Prop, conf)
		defer s.Close()
		nf := t.IntRange("nFiles", 1, p.MaxFiles)
		sizes := func(label string) int {
			c, pl := int(conf.ChunkSize), int(conf.PayloadSize)
			opts := []int{1, 2, c, c + 1, 2 * c, pl + 1, 2*pl + 3}
			return opts[t.Pick(label, len(opts))]
		}
		for i := 0; i < nf; i++ {
			name := fmt.Sprintf("g%d/f%d.dat", t.Pick("group", conf.Groups), i)
			s.WriteSource(name, sizes("size"), conf.MinAge+time.Duration(10+nf-i)*time.Minute)
		}
		s.StartSender()
		steps := t.IntRange("nSteps", 8, p.MaxSteps)
		flipped := map[string]bool{}
		emptied := map[string]bool{} // truncated to zero bytes and not rewritten since: ineligible
		s.emptyWatch = true
		changedAfterFlip := false
		for i := 0; i < steps; i++ {
			pend := s.Pending()
			switch t.Weighted("action", 10, 4, 3) {
			case 0:
				if len(pend) > 0 {
					r := pend[t.Pick("which", len(pend))]
					f := Fault{}
					if r.kind == "data" && t.Bool("flip") {
						f = Fault{Kind: XFlip, K: t.IntRange("faultPart", 0, 7), J: int64(t.IntRange("faultByte", 0, 63))}
						for _, bp := range r.pl.GetParts() {
							flipped[bp.GetName()] = true
						}
					}
					s.Serve(r, f)
				}
			case 1:
				time.Sleep(simWaits[t.Pick("wait", len(simWaits))])
			case 2:
				names := s.names()
				name := names[t.Pick("victim", len(names))]
				if conf.MinAge == 0 && t.Weighted("truncate", 2, 1) == 1 {
					// truncated to nothing (possible only as the last draw of a step, so that
					// replays of the other minimum ages keep their meaning)
					pth := filepath.Join(s.srcDir, name)
					now := time.Now()
					if last, ok := s.lastMtime[name]; ok && !now.After(last) {
						now = last.Add(time.Millisecond)
					}
					s.lastMtime[name] = now
					tmp := pth + ".tr.lck"
					os.WriteFile(tmp, nil, 0644)
					os.Chtimes(tmp, now, now)
					os.Rename(tmp, pth)
					emptied[name] = true
					t.Note("@%s source %s truncated to zero bytes", s.clock(), name)
					t.Class("file-truncated-to-empty")
					s.lastPerturb = time.Now()
					if flipped[name] {
						changedAfterFlip = true
					}
					s.observe()
					continue
				}
				if t.Bool("touch") {
					pth := filepath.Join(s.srcDir, name)
					now := time.Now()
					if last, ok := s.lastMtime[name]; ok && !now.After(last) {
						now = last.Add(time.Millisecond)
					}
					s.lastMtime[name] = now
					os.Chtimes(pth, now, now)
					if v := s.lastVersion(name); v != nil {
						s.mu.Lock()
						s.retransAllowed[name+"|"+v.hash] = true
						s.mu.Unlock()
					}
					t.Note("@%s touch %s", s.clock(), name)
					t.Class("file-touched")
					s.lastPerturb = time.Now()
				} else {
					size := sizes("size")
					if t.Bool("sameSize") {
						size = len(s.lastVersion(name).data)
					}
					s.WriteSource(name, size, 0)
					delete(emptied, name)
					t.Class("file-rewritten")
				}
				if flipped[name] {
					changedAfterFlip = true
				}
			}
			s.observe()
		}
		ok := s.Quiesce(conf.MinAge + 4*(conf.ScanDelay+conf.PollDelay+time.Duration(conf.PollAttempts)*conf.PollInterval) + 5*time.Minute)
		s.observe()
		simNonTrivial(s, t)
		if changedAfterFlip {
			t.NonTrivial()
			t.Class("changed-after-corrupt-transmission")
		}
		if !ok {
			for _, name := range s.names() {
				v := s.lastVersion(name)
				if emptied[name] || s.delivered(name, v.hash) {
					continue
				}
				var got []rng
				for _, wp := range s.wire {
					if wp.name == name && wp.hash == v.hash {
						got = append(got, rng{wp.beg, wp.end})
					}
				}
				if covered(got, 0, int64(len(v.data))) {
					t.Class("sent-again-but-not-delivered")
					continue
				}
				s.viol("C17", "changed-file-not-sent-again", "the source directory was left alone for the minimum age and several scan cycles, yet the current version %.6s of %s was never transmitted in full: %s", v.hash, name, s.stuckReport())
			}
		}
	})
}

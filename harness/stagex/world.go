// Package stagex drives a real stage.Stage (+ log.FileIO) on a temp directory
// under a fake clock: parts, order, duplication, corruption, restarts, crash
// images and cleaning are harness-owned; monitors decide C01 C04 C05 C06 C09 C20.
package stagex

import (
	"bytes"
	"crypto/md5"
	"encoding/json"
	"errors"
	"fmt"
	"io"
	"os"
	"path/filepath"
	"reflect"
	"sort"
	"strings"
	"sync"
	"testing/synctest"
	"time"
	"unsafe"

	"github.com/arm-doe/sts"
	"github.com/arm-doe/sts/log"
	"github.com/arm-doe/sts/marshal"
	"github.com/arm-doe/sts/stage"
	"verif/harness/vt"
)

// Version is one content a source file had, as announced to the receiver.
type Version struct {
	Name    string
	Renamed string
	Prev    string
	Hash    string // announced
	True    string // md5 of Data
	Data    []byte
	Time    time.Time
	seq     int
}

func (v *Version) Size() int64 { return int64(len(v.Data)) }
func (v *Version) Liar() bool  { return v.Hash != v.True }
func (v *Version) Target() string {
	if v.Renamed != "" {
		return v.Renamed
	}
	return v.Name
}
func (v *Version) key() string { return v.Name + "|" + v.Hash }

func md5hex(b []byte) string { return fmt.Sprintf("%x", md5.Sum(b)) }

// binned implements sts.Binned the way the decoder's descriptors do:
// GetSlice returns (beg, end).
type binned struct {
	v        *Version
	beg, end int64
}

func (b *binned) GetName() string          { return b.v.Name }
func (b *binned) GetRenamed() string       { return b.v.Renamed }
func (b *binned) GetPrev() string          { return b.v.Prev }
func (b *binned) GetFileTime() time.Time   { return b.v.Time }
func (b *binned) GetFileHash() string      { return b.v.Hash }
func (b *binned) GetFileSize() int64       { return b.v.Size() }
func (b *binned) GetSendSize() int64       { return b.v.Size() }
func (b *binned) GetSlice() (int64, int64) { return b.beg, b.end }

// Fault on one part of a request.
const (
	FNone      = iota
	FFlip      // one byte changed in transit, full length delivered
	FShortEOF  // reader ends cleanly after j bytes
	FShortErr  // reader fails after j bytes
	FNoReceive // Receive is not reached (connection cut before the part)
)

type PartSpec struct {
	V        *Version
	Beg, End int64
	Fault    int
	At       int64 // position for flip / short
}

type rng struct{ b, e int64 }

// shadow is what the harness knows about the staged copy of one name.
type shadow struct {
	hash           string // announced hash the ranges below belong to
	size           int64
	acked          []rng // Receive returned nil and the reader delivered the full length
	rejectedCopy   bool  // the ranges on record make up a complete copy that is corrupt
	attemptUnknown bool  // a part was offered again before the rejection was seen at rest: no attempt modelling for this version
	awaitingResend bool  // the receiver, at rest, reports that copy failed: the next part of this version opens a new attempt
	otherOffered   bool  // since then a part of another version of the name was offered and not recorded
	fed            map[int64]byte
	dirty          bool // some acked byte differs from the true content of the version (or staged copy overwritten)
}

type Arrival struct {
	Target string
	MD5    string
	Size   int64
	Step   int
	Gen    int
	When   time.Time
	Ver    *Version
}

type LogRec struct {
	Name, Renamed, Hash string
	Size                int64
	At                  time.Time
}

type World struct {
	early     []Arrival // consumed between two durable steps, not yet judged
	finalBase string    // non-empty: final directories live here (another file system)
	t         *vt.T
	prop      string
	dir       string
	gen       int
	st        *stage.Stage
	lg        *log.FileIO
	step      int
	started   time.Time

	versions  map[string][]*Version // by name
	byKey     map[string]*Version
	shadows   map[string]*shadow
	arrivals  []Arrival
	crashes   int
	cleans    []time.Time
	positive  map[string]time.Time // (name) -> last time a poll answered passed/waiting (by key)
	completed map[string]bool      // key -> all bytes acked at some point
	others    map[string]int
	stages    []*stage.Stage
	mu        sync.Mutex
	Quiet     bool // no trace notes (bulk phases)
}

// XDevFinal makes the next worlds keep their final directory on another file system (/dev/shm),
// so that the move into place cannot rename and has to copy. Reset by the caller.
var XDevFinal bool

func xdevBase() string {
	if fi, err := os.Stat("/dev/shm"); err != nil || !fi.IsDir() {
		return ""
	}
	d, err := os.MkdirTemp("/dev/shm", "stagex-final-"+os.Getenv("VT_RUN")+"-")
	if err != nil {
		return ""
	}
	return d
}

func NewWorld(t *vt.T, prop string) *World {
	base := os.Getenv("VT_TMP")
	dir, err := os.MkdirTemp(base, "stagex")
	if err != nil {
		t.Skip("tmp: " + err.Error())
	}
	w := &World{t: t, prop: prop, dir: dir, versions: map[string][]*Version{}, byKey: map[string]*Version{},
		shadows: map[string]*shadow{}, positive: map[string]time.Time{}, completed: map[string]bool{}, others: map[string]int{}}
	w.started = time.Now()
	if XDevFinal {
		w.finalBase = xdevBase()
	}
	w.boot(false)
	return w
}

func (w *World) cur() string      { return filepath.Join(w.dir, fmt.Sprintf("g%d", w.gen)) }
func (w *World) StageDir() string { return filepath.Join(w.cur(), "stage") }
func (w *World) FinalDir() string {
	if w.finalBase != "" {
		return filepath.Join(w.finalBase, fmt.Sprintf("g%d", w.gen))
	}
	return filepath.Join(w.cur(), "final")
}
func (w *World) LogDir() string { return filepath.Join(w.cur(), "log") }

func (w *World) boot(recover bool) {
	for _, d := range []string{w.StageDir(), w.FinalDir(), w.LogDir()} {
		os.MkdirAll(d, 0755)
	}
	w.lg = log.NewFileIO(w.LogDir(), nil, nil, true)
	w.st = stage.New("src", w.StageDir(), w.FinalDir(), w.lg, nil, nil)
	w.stages = append(w.stages, w.st)
	if recover {
		w.st.Recover()
	}
}

// Close abandons the world: timers of all stage instances are stopped (best
// effort, by reflection) and the directory is removed.
func (w *World) Close() {
	synctest.Wait()
	for _, s := range w.stages {
		killStage(s)
	}
	os.RemoveAll(w.dir)
	if w.finalBase != "" {
		os.RemoveAll(w.finalBase)
	}
}

// killStage stops the re-arming timers of an abandoned instance so that it
// does not burn simulated time for the rest of the process. Uses unexported
// field names; if they are gone this is a no-op.
func killStage(s *stage.Stage) {
	defer func() { _ = recover() }()
	v := reflect.ValueOf(s).Elem()
	if f := v.FieldByName("cleanTimeout"); f.IsValid() {
		p := reflect.NewAt(f.Type(), unsafe.Pointer(f.UnsafeAddr())).Elem()
		if tm, ok := p.Interface().(*time.Timer); ok && tm != nil {
			tm.Stop()
		}
	}
	if f := v.FieldByName("cache"); f.IsValid() {
		m := reflect.NewAt(f.Type(), unsafe.Pointer(f.UnsafeAddr())).Elem()
		for _, k := range m.MapKeys() {
			ff := m.MapIndex(k).Elem()
			if wf := ff.FieldByName("wait"); wf.IsValid() {
				p := reflect.NewAt(wf.Type(), unsafe.Pointer(wf.UnsafeAddr())).Elem()
				if tm, ok := p.Interface().(*time.Timer); ok && tm != nil {
					tm.Stop()
				}
			}
		}
	}
}

func (w *World) viol(prop, key, format string, a ...any) bool {
	if prop == w.prop {
		return w.t.Violation(key, format, a...)
	}
	if w.prop == "C06" && (prop == "C01" || prop == "C05") {
		// what reaches the final directory around a crash is C06's business too
		return w.t.Violation("around-crash:"+key, format, a...)
	}
	w.others[prop+"/"+key]++
	return true
}

// ---------------------------------------------------------------------------
// ground truth

func (w *World) AddVersion(v *Version) {
	v.True = md5hex(v.Data)
	if v.Hash == "" {
		v.Hash = v.True
	}
	v.seq = len(w.byKey)
	w.versions[v.Name] = append(w.versions[v.Name], v)
	w.byKey[v.key()] = v
}

func (w *World) sh(name string) *shadow {
	s := w.shadows[name]
	if s == nil {
		s = &shadow{fed: map[int64]byte{}}
		w.shadows[name] = s
	}
	return s
}

func covered(rs []rng, b, e int64) bool {
	if b >= e {
		return true
	}
	s := append([]rng{}, rs...)
	sort.Slice(s, func(i, j int) bool { return s[i].b < s[j].b })
	pos := b
	for _, r := range s {
		if r.e <= pos {
			continue
		}
		if r.b > pos {
			return false
		}
		pos = r.e
		if pos >= e {
			return true
		}
	}
	return pos >= e
}

// ---------------------------------------------------------------------------
// operations

func (w *World) Settle() { synctest.Wait() }

func (w *World) Advance(d time.Duration) {
	time.Sleep(d)
	synctest.Wait()
	w.restamp()
}

// restamp gives entries created by the code (real kernel mtimes, far before
// the simulated epoch) the current simulated time.
func (w *World) restamp() {
	now := time.Now()
	filepath.Walk(w.cur(), func(p string, info os.FileInfo, err error) error {
		if err == nil && info.ModTime().Before(vt.Base.Add(-24*365*time.Hour)) {
			os.Chtimes(p, now, now)
		}
		return nil
	})
}

type stepReader struct {
	data []byte
	pos  int
	fail error
}

func (r *stepReader) Read(p []byte) (int, error) {
	if r.pos >= len(r.data) {
		if r.fail != nil {
			return 0, r.fail
		}
		return 0, io.EOF
	}
	n := copy(p, r.data[r.pos:])
	r.pos += n
	return n, nil
}

// Request does what the data route does for one payload: Prepare all parts,
// then Receive them in order until one fails. Returns the number of parts
// received without error.
func (w *World) Request(parts []PartSpec) (n int, err error) {
	w.step++
	w.prepare(parts)
	n, err = w.receiveAll(parts, "")
	w.restamp()
	return
}

// RequestsConcurrent runs several requests at once, one goroutine each (as
// requests on several connections are served).
func (w *World) RequestsConcurrent(reqs [][]PartSpec) {
	w.step++
	for _, r := range reqs {
		w.prepare(r)
	}
	var wg sync.WaitGroup
	for i, r := range reqs {
		wg.Add(1)
		go func(i int, r []PartSpec) {
			defer wg.Done()
			w.receiveAll(r, fmt.Sprintf("conn%d ", i))
		}(i, r)
	}
	wg.Wait()
	w.restamp()
}

func (w *World) prepare(parts []PartSpec) {
	bs := make([]sts.Binned, len(parts))
	for i, p := range parts {
		bs[i] = &binned{p.V, p.Beg, p.End}
	}
	// a sender transmits a version again, from scratch, after a failed verdict: once the world has
	// been seen at rest with the complete copy of the record rejected (see markRejected), what
	// follows is a new attempt and nothing acknowledged for the rejected copy counts any more
	w.mu.Lock()
	for _, p := range parts {
		if s := w.shadows[p.V.Name]; s != nil && s.hash == p.V.Hash {
			if s.awaitingResend {
				s.acked, s.dirty, s.rejectedCopy, s.awaitingResend = nil, false, false, false
				delete(w.completed, p.V.key())
				w.t.Class("new-attempt-after-failed-verdict")
			} else if s.rejectedCopy {
				// offered again before the world was seen at rest: where the new attempt
				// begins is not known to the model, which then keeps out of it
				s.rejectedCopy = false
				s.attemptUnknown = true
			}
		}
	}
	w.mu.Unlock()
	w.st.Prepare(bs)
	// preparing for a part of another version may re-create the staged partial (it is keyed by
	// name) while the record still describes the previous version
	w.mu.Lock()
	for _, p := range parts {
		if s := w.shadows[p.V.Name]; s != nil && s.hash != "" && (s.hash != p.V.Hash || s.size != p.V.Size()) {
			s.otherOffered = true
		}
	}
	w.mu.Unlock()
}

func (w *World) receiveAll(parts []PartSpec, tag string) (n int, err error) {
	for i, p := range parts {
		if p.Fault == FNoReceive {
			err = errors.New("connection cut")
			w.mu.Lock()
			w.t.Note("#%d   %spart %d %s [%d,%d): not delivered (cut)", w.step, tag, i, p.V.Name, p.Beg, p.End)
			w.mu.Unlock()
			break
		}
		data := append([]byte{}, p.V.Data[p.Beg:p.End]...)
		rd := &stepReader{data: data}
		full := true
		corrupt := false
		switch p.Fault {
		case FFlip:
			at := p.At % int64(len(data))
			data[at] ^= 0x20
			corrupt = true
		case FShortEOF:
			rd.data = data[:p.At%int64(len(data))]
			full = false
		case FShortErr:
			rd.data = data[:p.At%int64(len(data))]
			rd.fail = io.ErrUnexpectedEOF
			full = false
		}
		file := &sts.Partial{Name: p.V.Name, Renamed: p.V.Renamed, Prev: p.V.Prev, Size: p.V.Size(),
			Time: marshal.NanoTime{Time: p.V.Time}, Hash: p.V.Hash, Source: "src",
			Parts: []*sts.ByteRange{{Beg: p.Beg, End: p.End}}}
		e := w.st.Receive(file, rd)
		w.mu.Lock()
		if !w.Quiet {
			w.t.Note("#%d   %spart %d %s#%s [%d,%d) fault=%d -> %v", w.step, tag, i, p.V.Name, p.V.Hash[:4], p.Beg, p.End, p.Fault, e)
		}
		s := w.sh(p.V.Name)
		if s.hash != p.V.Hash || s.size != p.V.Size() {
			// a different version replaces the record (on the first part that
			// is recorded under the new hash)
			if e == nil {
				s.hash = p.V.Hash
				s.size = p.V.Size()
				s.acked = nil
				s.dirty = false
				s.otherOffered = false
				s.rejectedCopy, s.awaitingResend, s.attemptUnknown = false, false, false
			} else {
				// a part of another version was offered and refused: the receiver may have re-created
				// or partly overwritten the staged partial (it is keyed by name) while the record still
				// describes the previous version
				s.otherOffered = true
			}
		}
		if e != nil {
			w.mu.Unlock()
			err = e
			break
		}
		n++
		if full {
			s.acked = append(s.acked, rng{p.Beg, p.End})
			if corrupt || p.V.Liar() {
				s.dirty = true
			}
			if covered(s.acked, 0, s.size) {
				w.completed[p.V.key()] = true
				if s.dirty && !p.V.Liar() && !s.attemptUnknown {
					s.rejectedCopy = true // complete but not what was announced: validation rejects it
				}
			}
			w.mu.Unlock()
		} else {
			w.mu.Unlock()
			// acknowledged although the reader ended early (judged by C09/C13)
			if w.viol("C09", "short-read-acknowledged", "Receive returned nil for part [%d,%d) of %s although the reader ended after %d bytes", p.Beg, p.End, p.V.Name, len(rd.data)) {
				// known: remember that the record now over-claims this range
				w.mu.Lock()
				s.acked = append(s.acked, rng{p.Beg, p.End})
				s.dirty = true
				w.mu.Unlock()
			}
		}
	}
	return
}

// Query asks how many leading parts are on record.
func (w *World) Query(parts []PartSpec) int {
	bs := make([]sts.Binned, len(parts))
	for i, p := range parts {
		bs[i] = &binned{p.V, p.Beg, p.End}
	}
	return w.st.Received(bs)
}

func (w *World) Poll(v *Version) int {
	return w.st.GetFileStatus(v.Name, v.Time)
}

func (w *World) Scan() []*sts.Partial {
	b, err := w.st.Scan("1")
	if err != nil {
		return nil
	}
	var ps []*sts.Partial
	json.Unmarshal(b, &ps)
	return ps
}

// Restart: clean (settled) restart of the receiver: the old instance loses
// access to the data (root moved), a new one recovers.
func (w *World) Restart() {
	w.step++
	synctest.Wait()
	w.Consume()
	old := w.cur()
	killStage(w.st)
	oldFinal := w.FinalDir()
	w.gen++
	if err := os.Rename(old, w.cur()); err != nil {
		w.t.Skip("rename generation: " + err.Error())
	}
	if w.finalBase != "" {
		os.Rename(oldFinal, w.FinalDir())
	}
	w.t.Note("#%d restart -> generation %d", w.step, w.gen)
	w.boot(true)
	synctest.Wait()
	w.restamp()
}

// Consume moves delivered files away (as a downstream ingest would), recording
// each as an arrival.
func (w *World) Consume() []Arrival {
	var out []Arrival
	root := w.FinalDir()
	filepath.Walk(root, func(p string, info os.FileInfo, err error) error {
		if err != nil || info.IsDir() {
			return nil
		}
		if strings.HasSuffix(p, ".lck") {
			return nil
		}
		rel, _ := filepath.Rel(root, p)
		data, e := os.ReadFile(p)
		if e != nil {
			return nil
		}
		// removal and recording are one step for concurrent observers
		w.mu.Lock()
		if os.Remove(p) != nil {
			// another observer took it in the meantime
			w.mu.Unlock()
			return nil
		}
		a := Arrival{Target: rel, MD5: md5hex(data), Size: int64(len(data)), Step: w.step, Gen: w.gen, When: time.Now()}
		// which version is it?
		for _, vs := range w.versions {
			for _, v := range vs {
				if v.Target() == rel && bytes.Equal(v.Data, data) && (a.Ver == nil || v.Hash == a.MD5) {
					a.Ver = v
				}
			}
		}
		w.arrivals = append(w.arrivals, a)
		w.mu.Unlock()
		out = append(out, a)
		if !w.Quiet {
			w.t.Note("#%d ARRIVAL %s md5=%s size=%d", w.step, rel, a.MD5[:4], a.Size)
		}
		return nil
	})
	return out
}

// consumeEarly: an ingest that looks between two steps of the receiver; what it takes is judged
// with the next observation.
func (w *World) consumeEarly() {
	arr := w.Consume()
	if len(arr) > 0 {
		w.mu.Lock()
		w.early = append(w.early, arr...)
		w.mu.Unlock()
	}
}

func (w *World) takeEarly() []Arrival {
	w.mu.Lock()
	defer w.mu.Unlock()
	e := w.early
	w.early = nil
	return e
}

// markRejected is called with the world at rest: complete corrupt copies that the receiver
// reports as failed are from now on waiting to be sent again.
func (w *World) markRejected() {
	w.mu.Lock()
	var cand []*Version
	for name, s := range w.shadows {
		if s.rejectedCopy && !s.awaitingResend {
			if v := w.byKey[name+"|"+s.hash]; v != nil {
				cand = append(cand, v)
			}
		}
	}
	w.mu.Unlock()
	for _, v := range cand {
		if w.st.GetFileStatus(v.Name, v.Time) == sts.ConfirmFailed {
			w.mu.Lock()
			w.shadows[v.Name].awaitingResend = true
			w.mu.Unlock()
		}
	}
}

func (w *World) LogRecords() []LogRec {
	var out []LogRec
	w.lg.Parse(func(name, renamed, hash string, size int64, t time.Time) bool {
		out = append(out, LogRec{name, renamed, hash, size, t})
		return false
	}, w.started.Add(-48*time.Hour), time.Now().Add(48*time.Hour))
	return out
}

// StageFiles lists the staging area: relative path -> size.
func (w *World) StageFiles() map[string]int64 {
	m := map[string]int64{}
	root := w.StageDir()
	filepath.Walk(root, func(p string, info os.FileInfo, err error) error {
		if err != nil || p == root {
			return nil
		}
		rel, _ := filepath.Rel(root, p)
		if info.IsDir() {
			m[rel+"/"] = -1
		} else {
			m[rel] = info.Size()
		}
		return nil
	})
	return m
}

func (w *World) readStage(rel string) []byte {
	b, _ := os.ReadFile(filepath.Join(w.StageDir(), rel))
	return b
}

func (w *World) arrivedCount(v *Version) int {
	n := 0
	for _, a := range w.arrivals {
		if a.Target == v.Target() && a.MD5 == v.Hash {
			n++
		}
	}
	return n
}

func (w *World) nameArrived(name string) bool {
	for _, a := range w.arrivals {
		if a.Ver != nil && a.Ver.Name == name {
			return true
		}
		for _, v := range w.versions[name] {
			if a.Target == v.Target() {
				return true
			}
		}
	}
	return false
}

func statusName(c int) string {
	switch c {
	case sts.ConfirmNone:
		return "none"
	case sts.ConfirmFailed:
		return "failed"
	case sts.ConfirmPassed:
		return "passed"
	case sts.ConfirmWaiting:
		return "waiting"
	}
	return fmt.Sprint(c)
}

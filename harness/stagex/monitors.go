package stagex

import (
	"encoding/json"
	"os"
	"path/filepath"
	"sort"
	"strings"
	"time"

	"github.com/arm-doe/sts"
)

// ---------------------------------------------------------------------------
// arrivals and log (C01, C04, C05)

func (s *Scenario) observe() {
	w := s.w
	arr := append(w.takeEarly(), w.Consume()...)
	if len(arr) == 0 {
		return
	}
	recs := w.LogRecords()
	for _, a := range arr {
		v := a.Ver
		// ---- C01: byte-identical to an announced version
		if v == nil {
			w.viol("C01", "delivered-content-not-a-source-version",
				"file %s (md5 %s, %d bytes) in the final directory equals no version of a source file of that name", a.Target, a.MD5, a.Size)
			continue
		}
		if v.Hash != a.MD5 {
			w.viol("C01", "delivered-although-hash-differs",
				"file %s delivered with md5 %s but the sender announced %s", a.Target, a.MD5, v.Hash)
		}
		idx := -1
		nrec := 0
		for i, r := range recs {
			if r.Name == v.Name && r.Hash == a.MD5 {
				if idx < 0 {
					idx = i
				}
				nrec++
			}
		}
		if idx < 0 {
			w.viol("C01", "delivered-without-log-record",
				"file %s (md5 %s) is in the final directory but the receive log has no record of it", a.Target, a.MD5)
		} else if recs[idx].Renamed != v.Renamed || recs[idx].Size != v.Size() {
			w.viol("C01", "log-record-fields-differ", "log record of %s has rename %q size %d, delivered rename %q size %d",
				v.Name, recs[idx].Renamed, recs[idx].Size, v.Renamed, v.Size())
		}
		// ---- C05: once
		if n := w.arrivedCount(v); n > 1 {
			w.viol("C05", "delivered-twice", "version %s#%s was delivered %d times", v.Name, v.Hash[:6], n)
		}
		if nrec > 1+w.crashes {
			w.viol("C05", "logged-twice", "version %s#%s has %d records in the receive log (crashes: %d)", v.Name, v.Hash[:6], nrec, w.crashes)
		}
		// ---- C04: not before its predecessor (order of log records decides
		// within one observation batch)
		if v.Prev != "" && v.Prev != v.Name {
			ok := false
			for i, r := range recs {
				if r.Name == v.Prev && (idx < 0 || i < idx) {
					ok = true
				}
			}
			if !ok && s.inCycle(v) && s.cleanerMayHaveRun() {
				ok = true
				s.t.Class("cycle-released")
			}
			if !ok {
				w.viol("C04", "delivered-before-predecessor",
					"%s was delivered (log index %d) although its announced predecessor %s has neither been delivered nor logged before it", v.Name, idx, v.Prev)
			} else {
				s.t.Class("delivered-after-predecessor")
			}
		}
	}
}

func (s *Scenario) latest(name string) *Version {
	for _, fs := range s.files {
		if fs.cur.Name == name {
			return fs.cur
		}
	}
	return nil
}

func (s *Scenario) inCycle(v *Version) bool {
	seen := map[string]bool{}
	cur := v
	for cur != nil {
		if seen[cur.Name] {
			return true
		}
		seen[cur.Name] = true
		if cur.Prev == "" {
			return false
		}
		if cur.Prev == cur.Name {
			return false // a self reference is no obstacle
		}
		cur = s.latest(cur.Prev)
	}
	return false
}

func (s *Scenario) cleanerMayHaveRun() bool {
	return len(s.w.cleans) > 0 || time.Since(s.w.started) >= 30*time.Minute
}

// ---------------------------------------------------------------------------
// settled-state checks

func (s *Scenario) companion(rel string) *sts.Partial {
	b, err := os.ReadFile(filepath.Join(s.w.StageDir(), rel+".cmp"))
	if err != nil {
		return nil
	}
	p := &sts.Partial{}
	if json.Unmarshal(b, p) != nil {
		return nil
	}
	return p
}

func (s *Scenario) observeSettled() {
	w := s.w
	s.observe()
	if s.p.Prop == "C09" {
		w.markRejected()
	}
	files := w.StageFiles()
	var names []string
	for f := range files {
		names = append(names, f)
	}
	sort.Strings(names)
	for _, f := range names {
		switch {
		case strings.HasSuffix(f, ".wait"):
			base := strings.TrimSuffix(f, ".wait")
			cmp := s.companion(base)
			data := w.readStage(f)
			if cmp != nil && md5hex(data) != cmp.Hash {
				// the companion already belongs to a newer version of the name
				// while the older, validated one is still held; nothing wrong
				// has been delivered (arrivals are what C01 judges)
				s.t.Class("held-copy-with-newer-companion")
			}
			v := s.latest(base)
			if v != nil && cmp != nil && cmp.Hash == v.Hash {
				st := w.Poll(v)
				s.t.Class("held-for-predecessor")
				if st != sts.ConfirmWaiting {
					w.viol("C04", "held-file-not-reported-waiting", "%s is held validated in staging (predecessor %q) but a poll answers %s", base, cmp.Prev, statusName(st))
				}
			}
		case strings.HasSuffix(f, ".full"):
			base := strings.TrimSuffix(f, ".full")
			cmp := s.companion(base)
			if cmp == nil {
				continue
			}
			if _, inProgress := files[base+".part"]; inProgress {
				// a leftover of an earlier, failed attempt next to a new
				// partial: not the current copy
				continue
			}
			v := w.byKey[base+"|"+cmp.Hash]
			if v == nil {
				continue
			}
			data := w.readStage(f)
			st := w.Poll(v)
			if md5hex(data) != cmp.Hash {
				s.t.Class("corrupt-complete-copy")
				if st != sts.ConfirmFailed {
					w.viol("C01", "corrupt-copy-not-reported-failed", "the complete staged copy of %s has md5 %s, announced %s; a poll answers %s instead of failed", base, md5hex(data), cmp.Hash, statusName(st))
				}
			}
		}
	}
	// C05: delivered versions are recognised
	for _, fs := range s.files {
		v := fs.cur
		if w.arrivedCount(v) == 0 {
			continue
		}
		if sh := w.shadows[v.Name]; sh != nil && sh.hash != v.Hash {
			continue
		}
		st := w.Poll(v)
		if st != sts.ConfirmPassed {
			w.viol("C05", "delivered-version-not-passed", "%s#%s was delivered but a poll answers %s", v.Name, v.Hash[:6], statusName(st))
		}
		parts := tile(v, s.psize)
		if n := w.Query(parts); n != len(parts) {
			w.viol("C05", "delivered-version-parts-not-recognised", "%s#%s was delivered but only %d of %d parts are answered as received", v.Name, v.Hash[:6], n, len(parts))
		}
	}
}

// ---------------------------------------------------------------------------
// C09: record of parts

func (s *Scenario) checkQuery() {
	w := s.w
	fs := s.files[s.t.Pick("qFile", len(s.files))]
	v := fs.cur
	var parts []PartSpec
	n := s.t.IntRange("qParts", 1, 3)
	for i := 0; i < n; i++ {
		if s.p.Overlap && s.t.Bool("qArbitrary") {
			b := int64(s.t.IntRange("qBeg", 0, int(v.Size()-1)))
			e := b + int64(s.t.IntRange("qLen", 1, int(v.Size()-b)))
			parts = append(parts, PartSpec{V: v, Beg: b, End: e})
		} else {
			parts = append(parts, fs.parts[s.t.Pick("qIdx", len(fs.parts))])
		}
	}
	got := w.Query(parts)
	s.t.Note("#%d query %s %v -> %d", w.step, v.Name, rangesOf(parts), got)
	sh := w.sh(v.Name)
	known := w.completed[v.key()] || w.arrivedCount(v) > 0
	for i := 0; i < got && !known; i++ {
		p := parts[i]
		if sh.hash != v.Hash || !covered(sh.acked, p.Beg, p.End) {
			w.viol("C09", "claims-unreceived-range", "Received() counts part [%d,%d) of %s#%s as held; acknowledged ranges of that version are %v (record belongs to hash %.6s)",
				p.Beg, p.End, v.Name, v.Hash[:6], sh.acked, sh.hash)
		}
	}
	// retention: every acknowledged range stays on record (the partials
	// listing) until the file is complete or another version replaces it.
	// (Received() may under-claim; that is sound.)
	if !known && sh.hash == v.Hash && len(sh.acked) > 0 {
		var listed []rng
		for _, p := range w.Scan() {
			if p.Name == v.Name && p.Hash == v.Hash {
				for _, r := range p.Parts {
					listed = append(listed, rng{r.Beg, r.End})
				}
			}
		}
		for _, r := range sh.acked {
			if !covered(listed, r.b, r.e) {
				overl := false
				for _, q := range sh.acked {
					if q != r && q.b < r.e && r.b < q.e {
						overl = true
					}
				}
				key := "acknowledged-part-forgotten"
				if overl {
					key = "acknowledged-part-forgotten-after-overlapping-part"
				}
				if w.viol("C09", key, "part [%d,%d) of %s#%s was acknowledged but is no longer on record (file not complete, same version); acknowledged: %v, listed: %v",
					r.b, r.e, v.Name, v.Hash[:6], sh.acked, listed) {
					break
				}
			}
		}
	}
}

func rangesOf(ps []PartSpec) (out []rng) {
	for _, p := range ps {
		out = append(out, rng{p.Beg, p.End})
	}
	return
}

func (s *Scenario) checkScan() {
	w := s.w
	for _, p := range w.Scan() {
		sh := w.shadows[p.Name]
		v := w.byKey[p.Name+"|"+p.Hash]
		if sh == nil || v == nil {
			if len(p.Parts) > 0 {
				w.viol("C09", "scan-lists-unknown-file", "partials listing names %s#%.6s which was never transmitted", p.Name, p.Hash)
			}
			continue
		}
		if w.completed[v.key()] || w.arrivedCount(v) > 0 {
			// the file has been complete: what is left is the record of a
			// delivered / validated copy (plus, possibly, a stray partial
			// created by a late duplicate); judged by C05 / C20
			continue
		}
		part := w.readStage(p.Name + ".part")
		for _, r := range p.Parts {
			if sh.hash != p.Hash || !covered(sh.acked, r.Beg, r.End) {
				w.viol("C09", "scan-lists-unreceived-range", "partials listing of %s#%.6s contains [%d,%d); acknowledged ranges: %v (hash %.6s)", p.Name, p.Hash, r.Beg, r.End, sh.acked, sh.hash)
				continue
			}
			if part != nil && !sh.dirty && int64(len(part)) >= r.End {
				if string(part[r.Beg:r.End]) != string(v.Data[r.Beg:r.End]) {
					key := "listed-range-bytes-differ"
					if sh.otherOffered {
						key = "listed-range-of-superseded-version-clobbered"
					}
					w.viol("C09", key, "range [%d,%d) of %s#%.6s is listed as held but the staged bytes differ from what was sent (a part of another version of the name was offered since: %v)", r.Beg, r.End, p.Name, p.Hash, sh.otherOffered)
				}
			}
		}
		// completeness is only claimed when the ranges cover the file
		if len(p.Parts) > 0 {
			s.t.Class("scan-nonempty")
		}
	}
	// a file that left the partial state must have been covered
	all := w.StageFiles()
	for f := range all {
		for _, ext := range []string{".full", ".wait"} {
			if strings.HasSuffix(f, ext) {
				base := strings.TrimSuffix(f, ext)
				if _, inProgress := all[base+".part"]; inProgress {
					continue // leftover of an earlier attempt next to a new partial
				}
				cmp := s.companion(base)
				sh := w.shadows[base]
				if cmp != nil && sh != nil && sh.hash == cmp.Hash && !covered(sh.acked, 0, sh.size) && w.gen == 0 {
					w.viol("C09", "complete-without-coverage", "%s is treated as complete but acknowledged ranges %v do not cover [0,%d)", base, sh.acked, sh.size)
				}
			}
		}
	}
}

func (s *Scenario) checkPollAny() {
	fs := s.files[s.t.Pick("pFile", len(s.files))]
	st := s.w.Poll(fs.cur)
	s.t.Note("#%d poll %s -> %s", s.w.step, fs.cur.Name, statusName(st))
	// C02 (receiver side): positive answers only for durably held validated content
	if st == sts.ConfirmPassed || st == sts.ConfirmWaiting {
		v := fs.cur
		ok := s.w.nameArrived(v.Name)
		if !ok {
			if data := s.w.readStage(v.Name + ".wait"); data != nil {
				ok = true
			}
		}
		if !ok {
			// the instant between validation and parking/finalizing: the
			// file may be on its way; look again once settled
			s.w.Settle()
			s.observe()
			ok = s.w.nameArrived(v.Name) || s.w.readStage(v.Name+".wait") != nil
		}
		if !ok {
			s.w.viol("C02", "positive-answer-without-validated-copy", "poll for %s answered %s but neither a validated staged copy nor a delivery exists", v.Name, statusName(st))
		}
	}
}

// ---------------------------------------------------------------------------
// C20: cleaning

type stageEntry struct {
	size  int64
	mtime time.Time
	dir   bool
}

type stageSnap struct {
	entries map[string]stageEntry
	cmpHash map[string]string // base -> companion hash
	when    time.Time
}

func (s *Scenario) snapshotStage() *stageSnap {
	sn := &stageSnap{entries: map[string]stageEntry{}, cmpHash: map[string]string{}, when: time.Now()}
	root := s.w.StageDir()
	filepath.Walk(root, func(p string, info os.FileInfo, err error) error {
		if err != nil || p == root {
			return nil
		}
		rel, _ := filepath.Rel(root, p)
		sn.entries[rel] = stageEntry{info.Size(), info.ModTime(), info.IsDir()}
		if strings.HasSuffix(rel, ".cmp") {
			if c := s.companion(strings.TrimSuffix(rel, ".cmp")); c != nil {
				sn.cmpHash[strings.TrimSuffix(rel, ".cmp")] = c.Hash
			}
		}
		return nil
	})
	return sn
}

func baseOf(rel string) (string, string) {
	for _, e := range []string{".part", ".full", ".wait", ".cmp"} {
		if strings.HasSuffix(rel, e) {
			return strings.TrimSuffix(rel, e), e
		}
	}
	return rel, ""
}

func (s *Scenario) deliveredOrLogged(name, hash string) bool {
	for _, a := range s.w.arrivals {
		if a.Ver != nil && a.Ver.Name == name && (hash == "" || a.MD5 == hash) {
			return true
		}
	}
	for _, r := range s.w.LogRecords() {
		if r.Name == name && (hash == "" || r.Hash == hash) {
			return true
		}
	}
	return false
}

func (s *Scenario) checkClean(before *stageSnap) {
	w := s.w
	w.Settle()
	s.observe()
	after := s.snapshotStage()
	// per base name: did the data file leave staging?
	hadData := map[string]string{}
	for rel, e := range before.entries {
		if e.dir {
			continue
		}
		base, ext := baseOf(rel)
		if ext == ".part" || ext == ".full" || ext == ".wait" {
			hadData[base] = ext
		}
	}
	hasData := map[string]bool{}
	for rel, e := range after.entries {
		if e.dir {
			continue
		}
		base, ext := baseOf(rel)
		if ext == ".part" || ext == ".full" || ext == ".wait" {
			hasData[base] = true
		}
	}
	for base, ext := range hadData {
		if hasData[base] {
			continue
		}
		hash := before.cmpHash[base]
		s.t.Note("clean: data of %s%s left staging (companion hash %.6s)", base, ext, hash)
		if s.deliveredOrLogged(base, hash) {
			s.t.Class("clean-removed-delivered-leftover")
			continue
		}
		old := before.entries[base+ext]
		w.viol("C20", "cleaning-removed-undelivered-data",
			"cleaning removed %s%s (companion hash %.6s, age %v) although no version of %s with that hash has been delivered or logged",
			base, ext, hash, before.when.Sub(old.mtime).Round(time.Minute), base)
	}
	// companions of files that are still being received must survive
	for base, h := range before.cmpHash {
		if _, still := after.entries[base+".cmp"]; still {
			continue
		}
		if hasData[base] && !s.deliveredOrLogged(base, h) {
			w.viol("C20", "cleaning-removed-live-companion", "cleaning removed the companion of %s (hash %.6s) whose data is still staged and undelivered", base, h)
		}
	}
	// nothing truncated
	for rel, e := range before.entries {
		if a, ok := after.entries[rel]; ok && !e.dir && a.size < e.size && !strings.HasSuffix(rel, ".cmp") {
			// a validator that was still at work when the cleaning began may have put a newer,
			// shorter version of the name in its place (steps are not separated by settling):
			// then the staged file is, byte for byte, that other version
			superseded := false
			for _, ext := range []string{".wait", ".full", ".part"} {
				if strings.HasSuffix(rel, ext) {
					data := w.readStage(rel)
					for _, v := range w.versions[strings.TrimSuffix(rel, ext)] {
						if data != nil && int64(len(v.Data)) == a.size && string(data) == string(v.Data) {
							superseded = true
						}
					}
				}
			}
			if superseded {
				s.t.Class("version-superseded-during-cleaning")
				continue
			}
			w.viol("C20", "cleaning-truncated-file", "%s shrank from %d to %d bytes during cleaning", rel, e.size, a.size)
		}
	}
	for base, ext := range hadData {
		old := before.entries[base+ext]
		if ext == ".part" && before.when.Sub(old.mtime) >= 24*time.Hour {
			if !s.deliveredOrLogged(base, before.cmpHash[base]) {
				s.t.Class("clean-with-old-undelivered-partial")
				s.t.NonTrivial()
			}
		}
	}
}

func (s *Scenario) checkPrune(before *stageSnap, age time.Duration) {
	after := s.snapshotStage()
	for rel, e := range before.entries {
		if !e.dir {
			continue
		}
		if _, still := after.entries[rel]; still {
			continue
		}
		// removed directory: must have been empty (apart from removed
		// sub-directories) and old enough
		for other, oe := range before.entries {
			if strings.HasPrefix(other, rel+"/") && !oe.dir {
				if _, fileStill := after.entries[other]; !fileStill {
					continue // the file left on its own (delivered); not pruning's doing
				}
				s.w.viol("C20", "prune-removed-nonempty-directory", "Prune removed %s which contained %s", rel, other)
			}
		}
		if before.when.Sub(e.mtime) < age {
			s.w.viol("C20", "prune-removed-young-directory", "Prune(%v) removed %s which was only %v old", age, rel, before.when.Sub(e.mtime))
		}
		s.t.Class("prune-removed-directory")
	}
}

// ---------------------------------------------------------------------------

func (s *Scenario) deliverable(v *Version, depth int) bool {
	if v == nil || v.Liar() || depth > 20 {
		return false
	}
	if v.Prev == "" || v.Prev == v.Name {
		return true
	}
	if s.w.nameArrived(v.Prev) {
		return true
	}
	if s.inCycle(v) {
		return true
	}
	return s.deliverable(s.latest(v.Prev), depth+1)
}

func (s *Scenario) finalChecks() {
	w := s.w
	for _, fs := range s.files {
		v := fs.cur
		n := w.arrivedCount(v)
		if v.Liar() {
			continue
		}
		if n == 0 && s.deliverable(v, 0) {
			prop, key := "C03", "complete-file-never-delivered"
			if v.Prev != "" && v.Prev != v.Name {
				prop, key = "C04", "held-file-never-released"
			}
			w.viol(prop, key, "%s#%s (predecessor %q) was transmitted completely and correctly, its predecessor is delivered, yet it was not delivered after the quiet period; poll says %s; staging: %v",
				v.Name, v.Hash[:6], v.Prev, statusName(w.Poll(v)), keysOf(w.StageFiles()))
		}
	}
}

func keysOf(m map[string]int64) []string {
	var k []string
	for s := range m {
		k = append(k, s)
	}
	sort.Strings(k)
	return k
}

func keysOfSnap(sn *stageSnap) []string {
	var k []string
	for s := range sn.entries {
		k = append(k, s)
	}
	sort.Strings(k)
	return k
}

package stagex

import (
	"os"
	"sync/atomic"
	"syscall"
	"time"
	"testing"

	"github.com/arm-doe/sts/log"
	"verif/harness/vt"
)

func TestMain(m *testing.M) {
	log.InitExternal(&vt.QuietLogger{})
	os.Exit(m.Run())
}

func realNow() float64 {
	var tv syscall.Timeval
	syscall.Gettimeofday(&tv)
	return float64(tv.Sec) + float64(tv.Usec)/1e6
}

func runScenario(t *vt.T, p Profile, nontrivial func(s *Scenario) bool) {
	t0 := realNow()
	defer func() {
		if os.Getenv("VT_TIMING") != "" {
			println("case real ms:", int((realNow()-t0)*1000), "log msgs:", atomic.LoadInt64(&vt.Count))
		}
	}()
	s := NewScenario(t, p)
	defer s.Close()
	defer func() {
		if os.Getenv("VT_TIMING") != "" {
			println("  prev:", p.Prev, "files:", len(s.files), "steps:", s.w.step, "simulated:", time.Since(s.w.started).String())
		}
	}()
	s.Run()
	s.Finish()
	if nontrivial(s) {
		t.NonTrivial()
	}
}

func multiPart(s *Scenario) bool {
	for _, fs := range s.files {
		if len(fs.parts) > 1 {
			return true
		}
	}
	return false
}

// C01: only hash-validated, byte-identical files reach the final directory.
func TestC01Stage(t *testing.T) {
	vt.CheckBubble(t, "C01", func(t *vt.T) {
		p := Profile{Prop: "C01", MaxFiles: 4, Prev: []string{"none", "forest"}[t.Pick("prevMode", 2)], Faults: true, Liars: true,
			Overwrite: true, Restarts: true, Dups: true, Reuse: t.Bool("reuse"), Rename: true, MaxSteps: 40}
		runScenario(t, p, func(s *Scenario) bool {
			return multiPart(s) && (s.faults > 0 || s.dups > 0 || t.HasClass("restart"))
		})
	})
}

// C04: order within a group, enforced through the announced predecessor.
func TestC04Stage(t *testing.T) {
	vt.CheckBubble(t, "C04", func(t *vt.T) {
		p := Profile{Prop: "C04", MaxFiles: 7, Prev: []string{"chain", "forest", "cycles"}[t.Pick("prevMode", 3)], Faults: t.Bool("faults"),
			Restarts: true, Dups: t.Bool("dups"), Clean: t.Bool("clean"), MaxSteps: 50}
		runScenario(t, p, func(s *Scenario) bool { return t.HasClass("held-for-predecessor") })
	})
}

// C05: each validated version is delivered exactly once.
func TestC05Stage(t *testing.T) {
	vt.CheckBubble(t, "C05", func(t *vt.T) {
		p := Profile{Prop: "C05", MaxFiles: 3, Prev: []string{"none", "chain"}[t.Pick("prevMode", 2)], Faults: t.Bool("faults"),
			Restarts: true, Dups: true, Clean: t.Bool("clean"), Rename: true, MaxSteps: 50, LongWaits: t.Bool("longWaits")}
		runScenario(t, p, func(s *Scenario) bool { return t.HasClass("dup-after-complete") || t.HasClass("dup-after-delivery") })
	})
}

// C09: the record of partly received files is sound.
func TestC09Stage(t *testing.T) {
	vt.CheckBubble(t, "C09", func(t *vt.T) {
		p := Profile{Prop: "C09", MaxFiles: 3, Prev: "none", Faults: true, ShortEOF: true, Dups: true, Reuse: true,
			Overlap: t.Bool("overlap"), Concurrent: t.Bool("concurrent"), MaxSteps: 40}
		runScenario(t, p, func(s *Scenario) bool { return multiPart(s) && (s.faults > 0 || s.dups > 0 || p.Overlap || t.HasClass("name-reuse")) })
	})
}

// C20: cleaning removes only what has been delivered.
func TestC20Stage(t *testing.T) {
	vt.CheckBubble(t, "C20", func(t *vt.T) {
		p := Profile{Prop: "C20", MaxFiles: 4, Prev: []string{"none", "none", "chain"}[t.Pick("prevMode", 3)], Faults: t.Bool("faults"),
			Restarts: t.Bool("restarts"), Dups: true, Clean: true, Reuse: true, MaxSteps: 50, LongWaits: true}
		runScenario(t, p, func(s *Scenario) bool { return false }) // set by checkClean
	})
}

//go:build verifhook

package stagex

import (
	"fmt"
	"io"
	"os"
	"path/filepath"
	"sort"
	"strings"
	"sync"
	"sync/atomic"
	"testing"
	"testing/synctest"
	"time"

	"github.com/arm-doe/sts"
	"github.com/arm-doe/sts/fileutil"
	"verif/harness/vt"
)

// ---------------------------------------------------------------------------
// pause points (inserted at build time, see cmd/instrument)

type pauser struct {
	mu     sync.Mutex
	mode   int // 0 off, 1 count, 2 park at target
	n      int
	target int
	frozen bool
	labels []string
	never  chan struct{}
	hitAt  string
	watch  *World // when set: the final directory is consumed before every durable step
}

var pz = &pauser{}

func (p *pauser) hook(label string) {
	p.mu.Lock()
	if w := p.watch; w != nil && !p.frozen {
		// a downstream ingest may look into the final directory between any two steps
		p.mu.Unlock()
		w.consumeEarly()
		p.mu.Lock()
	}
	if p.mode == 0 && !p.frozen {
		p.mu.Unlock()
		return
	}
	if !p.frozen {
		p.n++
		p.labels = append(p.labels, label)
		if p.mode == 2 && p.n == p.target {
			p.frozen = true
			p.hitAt = label
		}
	}
	if p.frozen {
		ch := p.never
		p.mu.Unlock()
		<-ch // the process is dead: this goroutine never continues
		return
	}
	p.mu.Unlock()
}

func (p *pauser) arm(mode, target int) {
	p.mu.Lock()
	if p.never == nil {
		p.never = make(chan struct{}) // must be created inside the bubble
	}
	p.mode, p.target, p.n, p.frozen, p.labels, p.hitAt = mode, target, 0, false, nil, ""
	p.mu.Unlock()
}

func (p *pauser) setWatch(w *World) {
	p.mu.Lock()
	p.watch = w
	p.mu.Unlock()
}

func (p *pauser) freeze() { // crash "now" (used by the parking part reader)
	p.mu.Lock()
	p.frozen = true
	p.mu.Unlock()
}

func (p *pauser) state() (frozen bool, n int, labels []string, hit string) {
	p.mu.Lock()
	defer p.mu.Unlock()
	return p.frozen, p.n, append([]string{}, p.labels...), p.hitAt
}

// do runs f on its own goroutine and reports whether it finished before the
// world came to rest (false: it is parked at the crash point, or behind it).
func do(f func()) bool {
	var done atomic.Bool
	go func() {
		f()
		done.Store(true)
	}()
	synctest.Wait()
	return done.Load()
}

// ---------------------------------------------------------------------------

type crashScript struct {
	psize int
	older []*Version // superseded versions (same name as an entry of files)
	multi map[string]bool
	files []*Version
	reqs  [][]PartSpec
	polls []int // after request i poll file polls[i] (-1: none)
}

func genCrashScript(t *vt.T, s *Scenario) *crashScript {
	cs := &crashScript{psize: s.psize}
	n := t.IntRange("nFiles", 1, 3)
	var pool []PartSpec
	for i := 0; i < n; i++ {
		name := dirs[t.Pick("dir", len(dirs))] + fmt.Sprintf("c%d.dat", i)
		v := &Version{Name: name, Data: s.newContent(s.psize*t.IntRange("parts", 1, 3) + t.IntRange("rest", 0, 1)), Time: vt.Base.Add(-50 * time.Hour)}
		if i > 0 && t.Bool("chained") {
			v.Prev = cs.files[i-1].Name
		}
		if t.Weighted("renamed", 3, 1) == 1 {
			v.Renamed = "r/" + strings.ReplaceAll(name, "/", "_")
		}
		cs.files = append(cs.files, v)
		pool = append(pool, tile(v, s.psize)...)
		t.Note("file %s size=%d prev=%q ren=%q", v.Name, v.Size(), v.Prev, v.Renamed)
	}
	order := t.Perm("order", len(pool))
	for i := 0; i < len(order); {
		k := t.IntRange("reqParts", 1, 3)
		var req []PartSpec
		for j := 0; j < k && i < len(order); j++ {
			req = append(req, pool[order[i]])
			i++
		}
		cs.reqs = append(cs.reqs, req)
		if t.Bool("pollAfter") {
			cs.polls = append(cs.polls, t.Pick("pollFile", n))
		} else {
			cs.polls = append(cs.polls, -1)
		}
	}
	// a new version of a chained file arrives after the first one (which is
	// then typically held, validated, for its predecessor)
	cs.multi = map[string]bool{}
	nv := t.Weighted("newVersion", 2, 1, 1)
	if (n > 1 && nv == 1) || nv == 2 {
		i := 0
		if nv == 1 {
			i = 1 + t.Pick("newVersionOf", n-1)
		} else {
			// ... or of a file without predecessor: the first version is delivered (and logged)
			// before the new one arrives
			i = t.Pick("newVersionOfDelivered", n)
		}
		old := cs.files[i]
		if (nv == 1 && old.Prev != "") || (nv == 2 && old.Prev == "") {
			v2 := &Version{Name: old.Name, Prev: old.Prev, Renamed: old.Renamed, Data: s.newContent(s.psize*t.IntRange("v2parts", 1, 3) + 1), Time: old.Time.Add(time.Hour)}
			cs.older = append(cs.older, old)
			cs.files[i] = v2
			cs.multi[old.Name] = true
			// order: the first version completely (it is then held for its
			// predecessor), the new version, and only then everything else
			var first, rest [][]PartSpec
			for _, rq := range cs.reqs {
				var a, b []PartSpec
				for _, p := range rq {
					if p.V == old {
						a = append(a, p)
					} else {
						b = append(b, p)
					}
				}
				if len(a) > 0 {
					first = append(first, a)
				}
				if len(b) > 0 {
					rest = append(rest, b)
				}
			}
			cs.reqs = first
			for _, p := range tile(v2, s.psize) {
				cs.reqs = append(cs.reqs, []PartSpec{p})
			}
			cs.reqs = append(cs.reqs, rest...)
			cs.polls = make([]int, len(cs.reqs))
			for i := range cs.polls {
				cs.polls[i] = -1
			}
			if nv == 1 {
				t.Class("new-version-while-held")
			} else {
				t.Class("new-version-of-delivered-name")
			}
			t.Note("new version of %s size=%d", v2.Name, v2.Size())
		}
	}
	// retransmissions: some parts arrive again later
	nd := t.IntRange("nDupRequests", 0, 2)
	for i := 0; i < nd; i++ {
		at := t.IntRange("dupAt", 1, len(cs.reqs))
		ps := pool[t.Pick("dupPart", len(pool))]
		superseded := false
		for _, o := range cs.older {
			if ps.V == o {
				superseded = true // a late copy of a version that a newer one has replaced would be a content revert
			}
		}
		if superseded {
			continue
		}
		if t.Bool("dupWholeFile") {
			cs.reqs = append(cs.reqs[:at], append([][]PartSpec{tile(ps.V, s.psize)}, cs.reqs[at:]...)...)
		} else {
			cs.reqs = append(cs.reqs[:at], append([][]PartSpec{{ps}}, cs.reqs[at:]...)...)
		}
		cs.polls = append(cs.polls[:at], append([]int{-1}, cs.polls[at:]...)...)
		t.Class("retransmission-before-crash")
	}
	return cs
}

type crashRun struct {
	t        *vt.T
	s        *Scenario
	w        *World
	cs       *crashScript
	positive map[string]bool // name -> a poll answered passed/waiting before the crash
	lateDup  map[string]bool // name -> parts were sent again after its delivery (leaves a stray partial by design)
}

func newCrashRun(t *vt.T, cs *crashScript, psize int) *crashRun {
	w := NewWorld(t, "C06")
	s := &Scenario{w: w, t: t, p: Profile{Prop: "C06"}, psize: psize}
	for _, v := range cs.older {
		w.AddVersion(v)
	}
	for _, v := range cs.files {
		w.AddVersion(v)
		s.files = append(s.files, &fileState{cur: v, parts: tile(v, psize)})
	}
	w.st.GetFileStatus("no/such/file", time.Now().Add(-time.Hour))
	return &crashRun{t: t, s: s, w: w, cs: cs, positive: map[string]bool{}, lateDup: map[string]bool{}}
}

// play executes the script until it ends or the crash point is reached.
func (r *crashRun) play() (crashed bool) {
	for i, req := range r.cs.reqs {
		for _, p := range req {
			if r.w.arrivedCount(p.V) > 0 || r.w.completed[p.V.key()] {
				r.lateDup[p.V.Name] = true
			}
		}
		if !do(func() { r.w.Request(req) }) {
			return true
		}
		if fr, _, _, _ := pz.state(); fr {
			return true
		}
		r.w.Consume()
		if p := r.cs.polls[i]; p >= 0 {
			v := r.cs.files[p]
			var st int
			if !do(func() { st = r.w.Poll(v) }) {
				return true
			}
			if st == sts.ConfirmPassed || st == sts.ConfirmWaiting {
				r.positive[v.Name] = true
			}
		}
	}
	fr, _, _, _ := pz.state()
	return fr
}

func copyTree(src, dst string) error {
	return filepath.Walk(src, func(p string, info os.FileInfo, err error) error {
		if err != nil {
			return nil
		}
		rel, _ := filepath.Rel(src, p)
		target := filepath.Join(dst, rel)
		if info.IsDir() {
			return os.MkdirAll(target, 0755)
		}
		in, e := os.Open(p)
		if e != nil {
			return nil
		}
		defer in.Close()
		out, e := os.Create(target)
		if e != nil {
			return e
		}
		defer out.Close()
		io.Copy(out, in)
		os.Chtimes(target, info.ModTime(), info.ModTime())
		return nil
	})
}

// crashImage: the old process is dead (parked); a copy of its directories is
// what the next process finds.
func (r *crashRun) crashImage() {
	w := r.w
	w.crashes++
	old := w.cur()
	oldFinal := w.FinalDir()
	killStage(w.st)
	w.gen++
	if err := copyTree(old, w.cur()); err != nil {
		r.t.Skip("copy: " + err.Error())
	}
	if w.finalBase != "" {
		if err := copyTree(oldFinal, w.FinalDir()); err != nil {
			r.t.Skip("copy: " + err.Error())
		}
	}
	r.t.Note("CRASH -> generation %d; image: stage=%v final=%v", w.gen, keysOf(w.StageFiles()), listDir(w.FinalDir()))
}

func listDir(root string) []string {
	var out []string
	filepath.Walk(root, func(p string, info os.FileInfo, err error) error {
		if err == nil && !info.IsDir() {
			rel, _ := filepath.Rel(root, p)
			out = append(out, rel)
		}
		return nil
	})
	sort.Strings(out)
	return out
}

// ---------------------------------------------------------------------------
// oracle after recovery

func (r *crashRun) checkRecovered(when string) {
	w, s := r.w, r.s
	s.observe() // arrivals: C01/C05 clauses (unlogged delivery, wrong bytes, second delivery)
	final := listDir(w.FinalDir())
	for _, f := range final {
		if strings.HasSuffix(f, ".lck") {
			w.viol("C06", "left-under-intermediate-name", "%s: %s is left in the final directory under its intermediate name; it is logged as received (poll: passed) but never appears under its proper name", when, f)
		}
	}
	stage := w.StageFiles()
	for _, v := range r.cs.files {
		if r.cs.multi[v.Name] {
			// two versions of this name are in play; the status poll answers
			// by name only, so only the arrival-based clauses are judged - and
			// this one, which needs no poll: a version whose every part had been
			// acknowledged before the crash is still there afterwards (delivered,
			// held, or staged under its own hash)
			if w.completed[v.key()] && w.arrivedCount(v) == 0 {
				staged := false
				for _, ext := range []string{".wait", ".full", ".part"} {
					if _, ok := stage[v.Name+ext]; ok {
						if c := r.s.companion(v.Name); c != nil && c.Hash == v.Hash {
							staged = true
						}
					}
				}
				if !staged {
					w.viol("C06", "complete-copy-of-new-version-lost-by-crash", "%s: every part of %s#%.6s (a new version of a name delivered before) had been acknowledged before the crash; afterwards it is neither delivered nor staged under its hash (stage %v, final %v)",
						when, v.Name, v.Hash, keysOf(stage), final)
				}
			}
			continue
		}
		st := w.Poll(v)
		delivered := w.arrivedCount(v) > 0
		_, hasWait := stage[v.Name+".wait"]
		_, hasFull := stage[v.Name+".full"]
		if delivered {
			if st != sts.ConfirmPassed {
				w.viol("C06", "delivered-but-not-passed-after-crash", "%s: %s is delivered but polls as %s", when, v.Name, statusName(st))
			}
			continue
		}
		if hasWait {
			if md5hex(w.readStage(v.Name+".wait")) != v.Hash {
				w.viol("C06", "held-copy-corrupt-after-crash", "%s: %s.wait does not have the announced hash", when, v.Name)
			}
			if st != sts.ConfirmWaiting && st != sts.ConfirmPassed {
				w.viol("C06", "validated-copy-not-acknowledged-after-crash", "%s: %s is held validated but polls as %s", when, v.Name, statusName(st))
			}
			continue
		}
		if st == sts.ConfirmPassed || st == sts.ConfirmWaiting {
			key := "positive-answer-but-nothing-held-after-crash"
			for _, f := range final {
				if f == v.Target()+".lck" {
					key = "left-under-intermediate-name"
				}
			}
			w.viol("C06", key, "%s: %s polls as %s but is neither delivered nor held validated (stage %v, final %v)", when, v.Name, statusName(st), keysOf(stage), final)
		}
		if r.positive[v.Name] && !r.cs.multi[v.Name] {
			w.viol("C06", "validated-file-lost-by-crash", "%s: %s was reported %s before the crash; afterwards it is neither delivered nor held validated (stage %v, final %v)",
				when, v.Name, "passed/waiting", keysOf(stage), final)
		}
		if hasFull {
			continue // complete, validation pending or failed: the sender re-sends after a failed verdict
		}
		// partial: the record must be accurate
		sh := w.shadows[v.Name]
		for _, p := range w.Scan() {
			if p.Name != v.Name || p.Hash != v.Hash {
				continue
			}
			part := w.readStage(v.Name + ".part")
			for _, rg := range p.Parts {
				if sh == nil || !covered(sh.acked, rg.Beg, rg.End) {
					// a part whose Receive had not returned yet may be on record if its data was written first
					if part == nil || int64(len(part)) < rg.End || string(part[rg.Beg:rg.End]) != string(v.Data[rg.Beg:rg.End]) {
						w.viol("C06", "record-lists-range-without-data-after-crash", "%s: the partials listing of %s contains [%d,%d) but the staged bytes there are not the file's", when, v.Name, rg.Beg, rg.End)
					}
					continue
				}
				if part == nil || int64(len(part)) < rg.End || string(part[rg.Beg:rg.End]) != string(v.Data[rg.Beg:rg.End]) {
					w.viol("C06", "record-lists-range-without-data-after-crash", "%s: the partials listing of %s contains [%d,%d) but the staged bytes there are not the file's", when, v.Name, rg.Beg, rg.End)
				}
			}
		}
	}
}

// resume does what a restarted / retrying sender does.
func (r *crashRun) resume() {
	w, s := r.w, r.s
	for round := 0; round < 3; round++ {
		listed := map[string][]rng{}
		for _, p := range w.Scan() {
			for _, rg := range p.Parts {
				listed[p.Name+"|"+p.Hash] = append(listed[p.Name+"|"+p.Hash], rng{rg.Beg, rg.End})
			}
		}
		for _, v := range r.cs.files {
			if w.arrivedCount(v) > 0 {
				if _, relisted := listed[v.key()]; relisted && round == 0 && !r.lateDup[v.Name] {
					w.viol("C06", "delivered-file-requested-again", "%s is delivered and logged, yet the partials listing still offers it for completion", v.Name)
				}
				continue
			}
			st := w.Poll(v)
			if (st == sts.ConfirmPassed || st == sts.ConfirmWaiting) && !r.cs.multi[v.Name] {
				continue
			}
			held := listed[v.key()]
			if st == sts.ConfirmFailed {
				held = nil
			}
			for _, p := range tile(v, s.psize) {
				if covered(held, p.Beg, p.End) {
					continue
				}
				w.Request([]PartSpec{p})
			}
		}
		w.Settle()
		s.observe()
		w.Advance(11 * time.Second)
		s.observe()
	}
	// end state: everything delivered exactly once, nothing under intermediate names
	r.checkRecovered("after resumption")
	for _, v := range r.cs.files {
		if n := w.arrivedCount(v); n != 1 {
			deliverable := v.Prev == "" || w.nameArrived(v.Prev)
			if n == 0 && !deliverable {
				continue
			}
			w.viol("C06", "not-delivered-exactly-once-after-crash", "%s was delivered %d times after crash, recovery and resumption (poll: %s; stage %v; final %v)",
				v.Name, n, statusName(w.Poll(v)), keysOf(w.StageFiles()), listDir(w.FinalDir()))
		}
	}
}

func propCrash(t *vt.T) {
	fileutil.VerifHook = pz.hook
	psize := t.IntRange("partSize", 1, 4)
	tmp := &Scenario{t: t, psize: psize}
	cs := genCrashScript(t, tmp)
	// final directory on another file system now and then: the move into place then copies
	// (<target>.lck written in full, staged copy removed, renamed) instead of renaming twice
	XDevFinal = t.Weighted("finalOnOtherFileSystem", 3, 1) == 1
	defer func() { XDevFinal = false }()
	if XDevFinal {
		t.Class("final-on-other-file-system")
	}
	// dry run: the sequence of durable steps of this scenario
	pz.arm(1, 0)
	dry := newCrashRun(t, cs, psize)
	dry.play()
	dry.w.Settle()
	_, n, labels, _ := pz.state()
	pz.arm(0, 0)
	dry.s.Close()
	if n == 0 {
		t.Violation("no-pause-points", "the instrumented build reached no pause point (instrumentation failed?)")
	}
	t.Note("dry run: %d durable steps", n)
	// which crash points
	var ks []int
	if os.Getenv("VT_TIER") == "thorough" && !t.Replaying() && false {
		for k := 1; k <= n; k++ {
			ks = append(ks, k)
		}
	} else {
		m := t.IntRange("nCrashPoints", 1, 4)
		for i := 0; i < m; i++ {
			ks = append(ks, t.IntRange("crashAt", 1, n))
		}
		// the windows "complete but not yet validated" and "validated but not
		// yet delivered" are narrow; aim at them explicitly now and then
		var narrow []int
		for i, l := range labels {
			if strings.HasPrefix(l, "stage.process:") || strings.HasPrefix(l, "fileutil.ReadableMD5") || strings.HasPrefix(l, "stage.putFileAway:") || strings.HasPrefix(l, "fileutil.Move:") || strings.HasPrefix(l, "fileutil.Copy:") {
				narrow = append(narrow, i+1)
			}
		}
		if len(narrow) > 0 && t.Weighted("aimAtNarrowWindow", 1, 1) == 1 {
			ks = append(ks, narrow[t.Pick("narrowIdx", len(narrow))])
		}
	}
	for _, k := range ks {
		lab := ""
		if k-1 < len(labels) {
			lab = labels[k-1]
		}
		t.Note("--- crash at durable step %d of %d (%s)", k, n, lab)
		pz.arm(2, k)
		r := newCrashRun(t, cs, psize)
		crashed := r.play()
		if !crashed {
			// the schedule differed from the dry run and the point was not reached; crash at the end
			synctest.Wait()
			pz.freeze()
		}
		_, _, _, hit := pz.state()
		t.Note("crashed at %q", hit)
		r.s.t.Class("crash:" + strings.SplitN(strings.SplitN(hit, "#", 2)[0], ".", 2)[len(strings.SplitN(strings.SplitN(hit, "#", 2)[0], ".", 2))-1])
		r.crashImage()
		// recovery, possibly crashed again
		second := t.Weighted("secondCrash", 3, 1) == 1
		if second {
			pz.arm(2, t.IntRange("recoveryCrashAt", 1, 6))
		} else {
			pz.arm(0, 0)
		}
		r.w.boot(false)
		pz.setWatch(r.w)
		finished := do(func() { r.w.st.Recover() })
		if fr, _, _, hit2 := pz.state(); fr || !finished {
			t.Note("second crash during recovery at %q", hit2)
			t.Class("crash-during-recovery")
			r.crashImage()
			pz.arm(0, 0)
			r.w.boot(false)
			pz.setWatch(r.w)
			do(func() { r.w.st.Recover() })
		}
		pz.arm(0, 0)
		r.w.Settle()
		pz.setWatch(nil)
		r.w.restamp()
		inside := k > 1 && k < n
		if inside {
			t.NonTrivial()
		}
		r.checkRecovered("after recovery")
		r.resume()
		r.s.Close()
		vtCount(t, "crash_executions")
	}
}

func vtCount(t *vt.T, name string) { t.Count(name, 1) }

func TestC06Crash(t *testing.T) { vt.CheckBubble(t, "C06", propCrash) }

// ---------------------------------------------------------------------------
// C15, recovery clause: while a staging area is recovering, it is not ready
// (requests are answered 'unavailable'), at every step of the recovery.

type holder struct {
	release chan struct{}
}

func propRecoveryNotReady(t *vt.T) {
	fileutil.VerifHook = pz.hook
	psize := t.IntRange("partSize", 1, 4)
	tmp := &Scenario{t: t, psize: psize}
	cs := genCrashScript(t, tmp)
	// first life: stop somewhere so that complete / partial / validated files are left behind
	pz.arm(1, 0)
	dry := newCrashRun(t, cs, psize)
	dry.play()
	dry.w.Settle()
	_, n, labels, _ := pz.state()
	pz.arm(0, 0)
	dry.s.Close()
	k := t.IntRange("crashAt", 1, n)
	// prefer crash points that leave a complete but unvalidated file behind
	var cand []int
	for i, l := range labels {
		if strings.HasPrefix(l, "stage.process:") || strings.HasPrefix(l, "fileutil.ReadableMD5") || strings.HasPrefix(l, "fileutil.FileMD5") {
			cand = append(cand, i+1)
		}
	}
	if len(cand) > 0 && t.Weighted("crashWhileValidating", 1, 3) == 1 {
		k = cand[t.Pick("crashCand", len(cand))]
	}
	pz.arm(2, k)
	r := newCrashRun(t, cs, psize)
	if !r.play() {
		synctest.Wait()
		pz.freeze()
	}
	r.crashImage()
	defer r.s.Close()
	// second life: recovery, stopped at a drawn step
	pz.arm(1, 0)
	r.w.boot(false)
	// count the steps of this recovery on a copy first? the recovery is cheap: run it held at step j
	j := t.IntRange("holdRecoveryAt", 1, 4)
	pz.arm(2, j) // parks the recovering goroutine at its j-th durable step
	finished := do(func() { r.w.st.Recover() })
	frozen, reached, _, hit := pz.state()
	if frozen && !finished {
		t.Class("request-during-recovery")
		t.NonTrivial()
		t.Note("recovery held at step %d (%s)", reached, hit)
		if r.w.st.Ready() {
			t.Violation("ready-while-recovering", "the staging area reports ready (requests would be processed) while its recovery is stopped at step %d (%s): files found complete are still being validated", reached, hit)
		}
	} else if frozen && finished {
		// Recover has returned and a later step is pending. Delivering a
		// validated file (log, move) is normal operation of a ready staging
		// area; classifying and validating what was found is recovery.
		if strings.HasPrefix(hit, "stage.Recover:") || strings.HasPrefix(hit, "stage.process:") || strings.HasPrefix(hit, "fileutil.ReadableMD5") || strings.HasPrefix(hit, "fileutil.FileMD5") {
			t.Class("request-during-recovery")
			t.NonTrivial()
			t.Violation("ready-while-recovering", "Recover() returned (staging area ready) while the validation of a file found complete (%s) had not been carried out yet", hit)
		}
		t.Class("held-after-recovery-in-delivery")
	} else {
		t.Class("recovery-had-fewer-steps")
		if !r.w.st.Ready() {
			t.Violation("not-ready-after-recovery", "recovery finished but the staging area is still not ready")
		}
	}
	pz.arm(0, 0)
}

func TestC15Recovery(t *testing.T) { vt.CheckBubble(t, "C15", propRecoveryNotReady) }

package stagex

// World W1: a real client.Broker (store.Local, cache.JSON, queue.Tagged,
// payload.Bin with the real encoder and decoder, log.FileIO) talking to a real
// stage.Stage through a harness-owned transport. The harness decides which
// pending request is served next, whether it fails and how, when time moves,
// when either side restarts, and what happens in the source directory.

import (
	"bytes"
	"encoding/json"
	"errors"
	"fmt"
	"io"
	"os"
	"path/filepath"
	"regexp"
	"runtime"
	"sort"
	"strings"
	"sync"
	"syscall"
	"testing/synctest"
	"time"

	"github.com/alecthomas/units"
	"github.com/arm-doe/sts"
	"github.com/arm-doe/sts/cache"
	"github.com/arm-doe/sts/client"
	"github.com/arm-doe/sts/log"
	"github.com/arm-doe/sts/marshal"
	"github.com/arm-doe/sts/payload"
	"github.com/arm-doe/sts/queue"
	"github.com/arm-doe/sts/stage"
	"github.com/arm-doe/sts/store"
	"verif/harness/vt"
)

// transport fault kinds
const (
	XOK         = iota
	XRefuse     // not processed, error to the sender
	XLostAnswer // fully processed, error to the sender
	XPartial    // parts < k processed, Receive of part k fails -> (k, err)   (the 206 shape)
	XCut        // parts < k processed, part k's reader dies after j bytes, no answer -> (0, err)
	XFlip       // processed, one byte of part k changed in transit
)

var errTransport = errors.New("simulated transport failure")
var errDead = errors.New("sender process is dead")

type SimConf struct {
	Threads      int
	PayloadSize  int64
	ChunkSize    int64
	PollDelay    time.Duration
	PollInterval time.Duration
	PollAttempts int
	PollMaxCount int
	ScanDelay    time.Duration
	MinAge       time.Duration
	Delete       bool
	DeleteDelay  time.Duration
	Order        string
	Groups       int // files are spread over this many groups (g0/.., g1/..)
	CacheAge     time.Duration
}

type req struct {
	gen   int
	kind  string // data, recover, poll, partials
	pl    sts.Payload
	polls []sts.Pollable
	reply chan reqResult
	seq   int
	desc  string
}

type reqResult struct {
	n        int
	err      error
	polled   []sts.Polled
	partials []*sts.Partial
}

type wirePart struct {
	name, hash string
	beg, end   int64
	gen        int // sender generation
	rgen       int // receiver generation
	seq        int
}

type srcVersion struct {
	name string
	data []byte
	hash string
	at   time.Time
}

type releaseEvent struct {
	kind string // done, remove
	name string
	hash string // md5 of the source file at that instant ("" if absent)
}

type Sim struct {
	t    *vt.T
	prop string
	w    *World
	conf SimConf

	srcDir, cacheDir, sentDir string

	mu                      sync.Mutex
	pending                 []*req
	seq                     int
	gen                     int
	dead                    map[int]bool
	stopCh                  chan bool
	doneCh                  chan bool
	stopped                 bool
	broker                  *client.Broker
	sentLog                 *log.FileIO
	versions                map[string][]*srcVersion
	deleted                 map[string]bool
	wire                    []wirePart
	polls                   []string
	releases                []releaseEvent
	sentRecs                []string
	faults                  int
	faultKinds              map[int]int
	restartsS, restartsR    int
	nreq                    int
	ctr                     int
	lastPerturb             time.Time
	retransAllowed          map[string]bool // name|hash -> a failed verdict / give-up / receiver restart allows sending again
	bytesOnWire             int64
	others                  map[string]int
	emptyWatch              bool // C17: report a part of an empty file on the wire
	told                    []wirePart // parts the sender was told are on record (200, 206 count, recovery answer)
	deferred                []deferredViolation
	asyncName               string
	tainted                 map[string]bool
	lastMtime               map[string]time.Time
	earliest                map[string]time.Time
	rejectedIno             map[string]uint64
	positiveOverRejected    map[string]bool
	faultedNames            map[string]bool // names carried by a data / recovery request that was served with a fault
	flipsAfterStop          int
	refuseAfterStop         bool
	rejectedAt              map[string]int // name|hash -> wire sequence number at which a complete but corrupt staged copy of that version was last seen
	voidBefore              map[string]int // name|hash -> acknowledgements up to this sequence number are void AND the sender has been told so (failed verdict)
	pollMismatch            map[string]bool
	actions                 int    // externally visible sender actions so far (all generations)
	crashAt                 int    // crash the sender when actions reaches this (0: never)
	crashKind               string // aimed crash: label prefix of the action kind
	crashNth, crashKindSeen int
	crashAfter              bool // crash at the boundary after that action instead of before it
	crashedAt               string
	needRestart             bool
	actionLog               []string
	listedAt                map[int]map[string][]rng // sender generation -> (name|hash) -> ranges the receiver listed in the partials answer
	heldAt                  map[int]map[string]bool  // sender generation -> (name|hash) complete/validated/delivered at the receiver at that time
	positivePolls           map[string]bool          // name|hash -> a positive answer reached the sender
}

func NewSim(t *vt.T, prop string, conf SimConf) *Sim {
	w := NewWorld(t, prop)
	s := &Sim{t: t, prop: prop, w: w, conf: conf, dead: map[int]bool{}, versions: map[string][]*srcVersion{},
		deleted: map[string]bool{}, tainted: map[string]bool{}, lastMtime: map[string]time.Time{}, pollMismatch: map[string]bool{}, positiveOverRejected: map[string]bool{}, faultedNames: map[string]bool{}, listedAt: map[int]map[string][]rng{}, heldAt: map[int]map[string]bool{}, positivePolls: map[string]bool{}, faultKinds: map[int]int{}, retransAllowed: map[string]bool{}, others: w.others}
	s.srcDir = filepath.Join(w.dir, "src")
	s.cacheDir = filepath.Join(w.dir, "cache")
	s.sentDir = filepath.Join(w.dir, "sentlog")
	for _, d := range []string{s.srcDir, s.cacheDir, s.sentDir} {
		os.MkdirAll(d, 0755)
	}
	s.lastPerturb = time.Now()
	return s
}

func (s *Sim) viol(prop, key, format string, a ...any) bool { return s.w.viol(prop, key, format, a...) }

// violAsync records a violation seen on a goroutine of the code under test;
// the controller raises it at its next observation (rapid's failure mechanism
// must run on the goroutine of the property function).
func (s *Sim) violAsync(prop, key, format string, a ...any) {
	s.mu.Lock()
	s.deferred = append(s.deferred, deferredViolation{prop, key, fmt.Sprintf(format, a...), s.asyncName})
	if s.asyncName != "" && (prop != s.prop || vt.IsKnown(prop, key)) {
		s.tainted[s.asyncName] = true // what follows from a counted finding is not reported again
	}
	s.mu.Unlock()
}

type deferredViolation struct{ prop, key, msg, name string }

func (s *Sim) raiseDeferred() {
	s.mu.Lock()
	d := s.deferred
	s.deferred = nil
	s.mu.Unlock()
	for _, v := range d {
		if s.viol(v.prop, v.key, "%s", v.msg) && v.name != "" {
			// a known finding (or another property's): what follows from it for
			// this file is not reported a second time
			s.mu.Lock()
			s.tainted[v.name] = true
			s.mu.Unlock()
		}
	}
}

// ---------------------------------------------------------------------------
// source directory (ground truth)

func (s *Sim) content(size int) []byte {
	s.ctr++
	b := make([]byte, size)
	tag := fmt.Sprintf("[%d]", s.ctr)
	for i := range b {
		b[i] = byte('a' + (i*11+s.ctr*7)%26)
	}
	copy(b, tag)
	return b
}

// WriteSource creates or rewrites a source file with fresh unique content.
func (s *Sim) WriteSource(name string, size int, age time.Duration) {
	data := s.content(size)
	p := filepath.Join(s.srcDir, name)
	os.MkdirAll(filepath.Dir(p), 0755)
	// replace atomically so that a concurrent reader sees old or new content
	tmp := p + ".wr.lck"
	os.WriteFile(tmp, data, 0644)
	tm := time.Now().Add(-age)
	// a rewrite always leaves a later modification time than anything the
	// name had before (a change that keeps size and time cannot be detected
	// by design)
	if last, ok := s.lastMtime[name]; ok && !tm.After(last) {
		tm = last.Add(time.Millisecond)
	}
	s.lastMtime[name] = tm
	os.Chtimes(tmp, tm, tm)
	os.Rename(tmp, p)
	v := &srcVersion{name: name, data: data, hash: md5hex(data), at: time.Now()}
	s.mu.Lock()
	for _, o := range s.versions[name] {
		if o.hash == v.hash {
			// same bytes written again: for the sender a changed file (new time), sent again
			s.retransAllowed[name+"|"+v.hash] = true
		}
	}
	s.versions[name] = append(s.versions[name], v)
	delete(s.deleted, name)
	s.mu.Unlock()
	// the receiver-side monitors know versions through World
	s.w.mu.Lock()
	s.w.AddVersion(&Version{Name: name, Data: data, Time: tm})
	s.w.mu.Unlock()
	s.t.Note("@%s source %s <- version %s (%d bytes)", s.clock(), name, v.hash[:6], size)
	s.lastPerturb = time.Now()
}

// LinkSource turns the (regular) source file name into a symbolic link to a file with the same
// content kept outside the outgoing directory.
func (s *Sim) LinkSource(name string) {
	p := filepath.Join(s.srcDir, name)
	dir := s.srcDir + ".linked"
	os.MkdirAll(dir, 0755)
	target := filepath.Join(dir, strings.ReplaceAll(name, "/", "_"))
	if err := os.Rename(p, target); err != nil {
		return
	}
	os.Symlink(target, p)
	s.t.Note("@%s source %s is a symbolic link to a file outside the outgoing directory", s.clock(), name)
}

func (s *Sim) clock() string { return time.Since(s.w.started).Round(time.Millisecond).String() }

func (s *Sim) srcHash(name string) string {
	b, err := os.ReadFile(filepath.Join(s.srcDir, name))
	if err != nil {
		return ""
	}
	return md5hex(b)
}

func (s *Sim) versionByHash(name, hash string) *srcVersion {
	for _, v := range s.versions[name] {
		if v.hash == hash {
			return v
		}
	}
	return nil
}

func (s *Sim) lastVersion(name string) *srcVersion {
	vs := s.versions[name]
	if len(vs) == 0 {
		return nil
	}
	return vs[len(vs)-1]
}

// ---------------------------------------------------------------------------
// recording wrappers around the sender's collaborators

type recStore struct {
	*store.Local
	s   *Sim
	gen int
}

func (r *recStore) GetOpener() sts.Open {
	op := r.Local.GetOpener()
	return func(f sts.File) (sts.Readable, error) {
		if r.s.tick(r.gen, "open "+f.GetName()) {
			return nil, errDead
		}
		return op(f)
	}
}

func (r *recStore) Remove(f sts.File) error {
	if r.s.tick(r.gen, "remove "+f.GetName()) {
		return errDead
	}
	r.s.onRelease("remove", f.GetName())
	return r.Local.Remove(f)
}

func (r *recStore) Scan(allow func(sts.File) bool) ([]sts.File, time.Time, error) {
	if r.s.tick(r.gen, "scan") {
		return nil, time.Time{}, errDead
	}
	return r.Local.Scan(allow)
}

type recCache struct {
	*cache.JSON
	s   *Sim
	gen int
}

func (c *recCache) Done(name string, whileLocked func(sts.Cached)) {
	if c.s.tick(c.gen, "cache-done "+name) {
		return
	}
	if f := c.JSON.Get(name); f != nil && !f.IsDone() {
		c.s.onRelease("done", name)
	}
	c.JSON.Done(name, whileLocked)
}

func (c *recCache) Persist() error {
	if c.s.tick(c.gen, "cache-persist") {
		return errDead
	}
	return c.JSON.Persist()
}

func (c *recCache) Add(f sts.Hashed) {
	if c.s.tick(c.gen, "cache-add "+f.GetName()) {
		return
	}
	c.JSON.Add(f)
}

func (c *recCache) Remove(name string) {
	if c.s.isDead(c.gen) {
		return
	}
	c.JSON.Remove(name)
}

type recLogger struct {
	*log.FileIO
	s   *Sim
	gen int
}

func (l *recLogger) Sent(f sts.Sent) {
	if l.s.tick(l.gen, "sent-log "+f.GetName()) {
		return
	}
	l.s.onSent(f)
	l.FileIO.Sent(f)
}

func (s *Sim) isDead(gen int) bool {
	s.mu.Lock()
	defer s.mu.Unlock()
	return s.dead[gen]
}

// tick marks the boundary before an externally visible action of the sender
// (scan, open/hash, cache write, request, log write, delete). When the drawn
// crash index is reached the process "dies" right here: this action and
// everything after it has no effect. Returns true if the caller is dead.
func (s *Sim) tick(gen int, label string) bool {
	s.mu.Lock()
	defer s.mu.Unlock()
	if s.dead[gen] {
		return true
	}
	s.actions++
	if len(s.actionLog) < 600 {
		s.actionLog = append(s.actionLog, label)
	}
	if s.crashKind != "" && strings.HasPrefix(label, s.crashKind) {
		// aimed crash: right before (or right after) the n-th action of one kind
		s.crashKindSeen++
		if s.crashKindSeen == s.crashNth {
			s.crashKind = ""
			s.crashAt = s.actions
			if s.crashAfter {
				s.crashAt = s.actions + 1
			}
		}
	}
	if s.crashAt > 0 && s.actions == s.crashAt {
		s.dead[gen] = true
		s.crashedAt = label
		s.needRestart = true
		return true
	}
	return false
}

// onRelease: the sender marks a file done / deletes it. C02: the receiver must
// hold a validated copy of exactly the content the source file has now.
func (s *Sim) onRelease(kind, name string) {
	h := s.srcHash(name)
	s.mu.Lock()
	s.releases = append(s.releases, releaseEvent{kind, name, h})
	s.mu.Unlock()
	s.t.Note("@%s sender %s %s (source content %.6s)", s.clock(), kind, name, h)
	if h == "" {
		return // nothing there to lose
	}
	s.mu.Lock()
	tainted := s.tainted[name]
	s.mu.Unlock()
	if tainted {
		return // consequence of a finding already counted for this file
	}
	if !s.receiverHoldsValidated(name, h) {
		key := "released-without-validated-copy"
		older := false
		atStartup := false
		pcs := make([]uintptr, 40)
		frames := runtime.CallersFrames(pcs[:runtime.Callers(1, pcs)])
		for {
			fr, more := frames.Next()
			if strings.HasSuffix(fr.Function, "(*Broker).recover") {
				atStartup = true
			}
			if !more {
				break
			}
		}
		s.mu.Lock()
		for _, v := range s.versions[name] {
			if v.hash != h && s.receiverHoldsValidatedLocked(name, v.hash) {
				older = true
			}
		}
		s.mu.Unlock()
		if older {
			key = "released-new-content-on-confirmation-of-older-version"
			if atStartup {
				key = "released-new-content-on-confirmation-of-older-version-at-startup-poll"
			}
		}
		// all bytes of this content were acknowledged, yet the receiver does
		// not hold it validated: the positive poll answer was about another
		// version of the name (the poll carries no hash)
		s.mu.Lock()
		var acked []rng
		for _, wp := range s.wire {
			if wp.name == name && wp.hash == h {
				acked = append(acked, rng{wp.beg, wp.end})
			}
		}
		v := s.versionByHash(name, h)
		s.mu.Unlock()
		_ = acked
		s.mu.Lock()
		mism := s.pollMismatch[name+"|"+h]
		s.mu.Unlock()
		if v != nil && mism && !atStartup {
			key = "released-on-poll-answer-about-another-version"
		}
		s.mu.Lock()
		if s.positiveOverRejected[name+"|"+h] {
			key = "released-on-positive-answer-while-rejected-copy-staged"
		}
		s.mu.Unlock()
		s.mu.Lock()
		s.asyncName = name
		s.mu.Unlock()
		s.violAsync("C02", key, "sender %s %s whose content is now %.6s, but the receiver holds no validated copy of that content (staging: %v, arrivals: %v)",
			kind, name, h, keysOf(s.w.StageFiles()), s.arrivalSummary(name))
	}
}

func (s *Sim) arrivalSummary(name string) (out []string) {
	for _, a := range s.w.arrivals {
		if a.Ver != nil && a.Ver.Name == name {
			out = append(out, a.MD5[:6])
		}
	}
	return
}

func (s *Sim) receiverHoldsValidatedLocked(name, hash string) bool {
	return s.receiverHoldsValidated(name, hash)
}

func (s *Sim) receiverHoldsValidated(name, hash string) bool {
	// looked at in the order the file travels (staging -> final directory ->
	// consumed by the harness) so that a concurrent move cannot slip between
	// two looks
	for _, p := range []string{
		filepath.Join(s.w.StageDir(), name+".wait"),
		filepath.Join(s.w.FinalDir(), name+".lck"),
		filepath.Join(s.w.FinalDir(), name),
	} {
		if b, err := os.ReadFile(p); err == nil && md5hex(b) == hash {
			return true
		}
	}
	s.w.mu.Lock()
	defer s.w.mu.Unlock()
	for _, a := range s.w.arrivals {
		if a.Ver != nil && a.Ver.Name == name && a.MD5 == hash {
			return true
		}
	}
	return false
}

func (s *Sim) onSent(f sts.Sent) {
	name, hash := f.GetName(), f.GetHash()
	s.mu.Lock()
	s.sentRecs = append(s.sentRecs, name+"|"+hash)
	v := s.versionByHash(name, hash)
	var acked []rng
	for _, wp := range s.wire {
		if wp.name == name && wp.hash == hash && wp.seq > s.voidBefore[name+"|"+hash] {
			acked = append(acked, rng{wp.beg, wp.end})
		}
	}
	s.mu.Unlock()
	s.t.Note("@%s sender logs %s#%.6s as sent", s.clock(), name, hash)
	if v == nil {
		return
	}
	if !covered(acked, 0, int64(len(v.data))) {
		s.violAsync("C08", "logged-sent-before-all-bytes-acknowledged", "the sender wrote %s#%.6s (%d bytes) to its sent log although the receiver acknowledged only %v (not counting what went into a copy whose rejection the sender had been told)",
			name, hash, len(v.data), acked)
	}
}

// ---------------------------------------------------------------------------
// transport (runs on sender goroutines; blocks until the controller serves it)

func (s *Sim) post(r *req) reqResult {
	if s.tick(r.gen, "request "+r.kind) {
		return reqResult{err: errDead}
	}
	r.reply = make(chan reqResult, 1)
	s.mu.Lock()
	s.seq++
	r.seq = s.seq
	s.pending = append(s.pending, r)
	s.mu.Unlock()
	return <-r.reply
}

type polled struct {
	sts.Pollable
	code int
}

func (p *polled) NotFound() bool { return p.code == sts.ConfirmNone }
func (p *polled) Waiting() bool  { return p.code == sts.ConfirmWaiting }
func (p *polled) Failed() bool   { return p.code == sts.ConfirmFailed }
func (p *polled) Received() bool { return p.code == sts.ConfirmPassed }

func describe(pl sts.Payload) string {
	var sb strings.Builder
	for _, b := range pl.GetParts() {
		beg, n := b.GetSlice()
		fmt.Fprintf(&sb, "%s#%.4s[%d,%d) ", b.GetName(), b.GetFileHash(), beg, beg+n)
	}
	return sb.String()
}

// StartSender creates a new sender generation over the same directories.
func (s *Sim) StartSender() {
	s.mu.Lock()
	s.gen++
	gen := s.gen
	s.mu.Unlock()
	c := s.conf
	st := &store.Local{Root: s.srcDir, MinAge: c.MinAge}
	st.AddStandardIgnore()
	cj, err := cache.NewJSON(s.cacheDir, s.srcDir, "")
	if err != nil {
		s.t.Note("cache load error: %v", err)
		cj, _ = cache.NewJSON(filepath.Join(s.cacheDir, fmt.Sprintf("fresh%d", gen)), s.srcDir, "")
	}
	groupBy := regexp.MustCompile(`^([^/]*)/`)
	qtags := []*queue.Tag{{Name: "", Priority: 0, Order: c.Order, ChunkSize: c.ChunkSize}}
	tagger := func(group string) string { return "" }
	grouper := func(name string) string {
		m := groupBy.FindStringSubmatch(name)
		if len(m) > 1 && m[1] != "" {
			return m[1]
		}
		return ""
	}
	s.sentLog = log.NewFileIO(s.sentDir, nil, nil, false)
	s.broker = &client.Broker{Conf: &client.Conf{
		Name:  "sim",
		Store: &recStore{Local: st, s: s, gen: gen},
		Cache: &recCache{JSON: cj, s: s, gen: gen},
		Queue: queue.NewTagged(qtags, tagger, grouper),
		Recoverer: func() ([]*sts.Partial, error) {
			r := s.post(&req{gen: gen, kind: "partials"})
			return r.partials, r.err
		},
		BuildPayload: payload.NewBin,
		Transmitter: func(p sts.Payload) (int, error) {
			r := s.post(&req{gen: gen, kind: "data", pl: p, desc: describe(p)})
			return r.n, r.err
		},
		TxRecoverer: func(p sts.Payload) (int, error) {
			r := s.post(&req{gen: gen, kind: "recover", pl: p, desc: describe(p)})
			return r.n, r.err
		},
		Validator: func(ps []sts.Pollable) ([]sts.Polled, error) {
			r := s.post(&req{gen: gen, kind: "poll", polls: ps})
			return r.polled, r.err
		},
		Logger:       &recLogger{FileIO: s.sentLog, s: s, gen: gen},
		Tagger:       func(name string) string { return "" },
		CacheAge:     c.CacheAge,
		ScanDelay:    c.ScanDelay,
		Threads:      c.Threads,
		PayloadSize:  units.Base2Bytes(c.PayloadSize),
		StatInterval: time.Hour,
		PollDelay:    c.PollDelay,
		PollInterval: c.PollInterval,
		PollAttempts: c.PollAttempts,
		PollMaxCount: c.PollMaxCount,
		Tags:         []*client.FileTag{{Name: "", InOrder: c.Order != sts.OrderNone, Delete: c.Delete, DeleteDelay: c.DeleteDelay}},
		ErrorBackoff: 1,
	}}
	s.stopCh = make(chan bool, 1)
	s.doneCh = make(chan bool, 1)
	s.stopped = false
	go s.broker.Start(s.stopCh, s.doneCh)
	s.t.Note("@%s sender generation %d started", s.clock(), gen)
}

// CrashSender: from this instant nothing the old process does is visible.
func (s *Sim) CrashSender() {
	s.mu.Lock()
	gen := s.gen
	s.dead[gen] = true
	s.needRestart = false
	var keep []*req
	var drop []*req
	for _, r := range s.pending {
		if r.gen == gen {
			drop = append(drop, r)
		} else {
			keep = append(keep, r)
		}
	}
	s.pending = keep
	s.mu.Unlock()
	for _, r := range drop {
		r.reply <- reqResult{err: errDead}
	}
	select {
	case s.stopCh <- false:
	default:
	}
	s.restartsS++
	s.lastPerturb = time.Now()
	s.t.Note("@%s SENDER CRASH (generation %d)", s.clock(), gen)
}

// StopSender asks for a stop and waits (bounded in simulated time) for Start to return.
func (s *Sim) StopSender(graceful bool, bound time.Duration) bool {
	if s.stopped {
		return true
	}
	select {
	case s.stopCh <- graceful:
	default:
	}
	deadline := time.Now().Add(bound)
	for time.Now().Before(deadline) {
		select {
		case <-s.doneCh:
			s.stopped = true
			return true
		default:
		}
		// keep serving requests: the first flipsAfterStop data requests with a byte flipped in transit
		// (validation failures in flight while stopping), the rest without faults
		for {
			p := s.Pending()
			if len(p) == 0 {
				break
			}
			f := Fault{}
			if p[0].kind == "data" && s.flipsAfterStop > 0 {
				s.flipsAfterStop--
				f = Fault{Kind: XFlip, All: true}
			}
			if s.refuseAfterStop {
				// the network is down while the sender is told to stop at once: it must still exit
				f = Fault{Kind: XRefuse}
			}
			s.Serve(p[0], f)
			s.observe()
		}
		time.Sleep(100 * time.Millisecond)
	}
	return false
}

// ---------------------------------------------------------------------------
// controller

// Pending returns the requests waiting to be served (all sender goroutines at rest).
func (s *Sim) Pending() []*req {
	synctest.Wait()
	s.mu.Lock()
	defer s.mu.Unlock()
	out := append([]*req{}, s.pending...)
	sort.Slice(out, func(i, j int) bool { return out[i].seq < out[j].seq })
	return out
}

func (s *Sim) take(r *req) {
	s.mu.Lock()
	for i, p := range s.pending {
		if p == r {
			s.pending = append(s.pending[:i], s.pending[i+1:]...)
			break
		}
	}
	s.mu.Unlock()
}

type Fault struct {
	Kind int
	K    int   // part index
	J    int64 // byte position
	All  bool  // XFlip: every part of the request is hit
}

// observeRejections looks for complete staged copies (<name>.full) whose bytes do not have the
// announced hash: validation rejects such a copy and the next data request for the name discards
// it, so nothing acknowledged so far for that version is held any more. (No part of a new attempt
// can have been acknowledged while the .full is still there: Receive needs a .part.)
func (s *Sim) observeRejections() {
	if s.rejectedAt == nil {
		s.rejectedAt, s.voidBefore, s.rejectedIno = map[string]int{}, map[string]int{}, map[string]uint64{}
	}
	for name := range s.versions {
		b, err := os.ReadFile(filepath.Join(s.w.StageDir(), name+".full"))
		if err != nil {
			continue
		}
		cb, err := os.ReadFile(filepath.Join(s.w.StageDir(), name+".cmp"))
		if err != nil {
			continue
		}
		c := &sts.Partial{}
		if json.Unmarshal(cb, c) != nil || c.Hash == "" || md5hex(b) == c.Hash {
			continue
		}
		// a rejected copy may lie around while the next attempt is assembled in a new .part:
		// each copy (inode) counts once, when first seen
		ino := uint64(0)
		if fi, err := os.Stat(filepath.Join(s.w.StageDir(), name+".full")); err == nil {
			if st, ok := fi.Sys().(*syscall.Stat_t); ok {
				ino = st.Ino
			}
		}
		if s.rejectedIno[name] == ino {
			continue
		}
		s.rejectedIno[name] = ino
		s.mu.Lock()
		s.rejectedAt[name+"|"+c.Hash] = s.seq
		s.mu.Unlock()
	}
}

// Serve executes one request against the receiver with the given fault.
func (s *Sim) Serve(r *req, f Fault) {
	s.observeRejections()
	s.take(r)
	s.nreq++
	if f.Kind != XOK {
		s.faults++
		s.faultKinds[f.Kind]++
		s.lastPerturb = time.Now()
		if r.pl != nil {
			// the files of a request that failed in any way may legitimately travel again
			s.mu.Lock()
			for _, p := range r.pl.GetParts() {
				s.faultedNames[p.GetName()] = true
			}
			s.mu.Unlock()
		}
	}
	switch r.kind {
	case "partials":
		if f.Kind == XRefuse || f.Kind == XLostAnswer {
			s.t.Note("@%s partials -> refused", s.clock())
			r.reply <- reqResult{err: errTransport}
			return
		}
		ps := s.w.Scan()
		s.t.Note("@%s partials -> %d files", s.clock(), len(ps))
		s.onPartials(r.gen, ps)
		if s.prop == "C07" {
			// the same answer rendered another way: every recorded range of three bytes or more is
			// followed by a range nested inside it (the union is unchanged; the receiver's records
			// may overlap, see C09's finding, and the sender's gap computation says it copes)
			out := make([]*sts.Partial, len(ps))
			for i, p := range ps {
				c := *p
				c.Parts = nil
				for _, br := range p.Parts {
					c.Parts = append(c.Parts, &sts.ByteRange{Beg: br.Beg, End: br.End})
					if br.End-br.Beg >= 3 {
						c.Parts = append(c.Parts, &sts.ByteRange{Beg: br.Beg + 1, End: br.End - 1})
					}
				}
				out[i] = &c
			}
			ps = out
		}
		r.reply <- reqResult{partials: ps}
	case "poll":
		if f.Kind == XRefuse {
			s.t.Note("@%s poll refused", s.clock())
			r.reply <- reqResult{err: errTransport}
			return
		}
		var out []sts.Polled
		var desc []string
		for _, p := range r.polls {
			code := s.w.st.GetFileStatus(p.GetName(), time.Unix(p.GetStarted().Unix(), 0))
			out = append(out, &polled{p, code})
			desc = append(desc, fmt.Sprintf("%s=%s", p.GetName(), statusName(code)))
			if (code == sts.ConfirmPassed || code == sts.ConfirmWaiting) && !s.receiverHoldsValidated(p.GetName(), p.GetHash()) {
				// the answer is about another version of that name (the request carries no hash)
				s.mu.Lock()
				s.pollMismatch[p.GetName()+"|"+p.GetHash()] = true
				s.mu.Unlock()
				s.t.Class("positive-poll-answer-about-another-version")
				// poll-by-name explains a positive answer about an older, delivered version while
				// the new one is incomplete. It does not explain a positive answer while the
				// receiver sits on a complete copy of exactly the polled version that it rejected.
				if b, err := os.ReadFile(filepath.Join(s.w.StageDir(), p.GetName()+".full")); err == nil {
					if cb, err := os.ReadFile(filepath.Join(s.w.StageDir(), p.GetName()+".cmp")); err == nil {
						c := &sts.Partial{}
						if json.Unmarshal(cb, c) == nil && c.Hash == p.GetHash() && md5hex(b) != c.Hash {
							s.mu.Lock()
							s.positiveOverRejected[p.GetName()+"|"+p.GetHash()] = true
							s.mu.Unlock()
						}
					}
				}
			}
			if code == sts.ConfirmFailed || code == sts.ConfirmNone {
				s.mu.Lock()
				s.retransAllowed[p.GetName()+"|"+p.GetHash()] = true
				s.mu.Unlock()
			}
		}
		s.t.Note("@%s poll %v%s", s.clock(), desc, map[bool]string{true: " (answer lost)", false: ""}[f.Kind == XLostAnswer])
		if f.Kind == XLostAnswer {
			r.reply <- reqResult{err: errTransport}
			return
		}
		s.mu.Lock()
		for _, p := range out {
			k := p.GetName() + "|" + p.GetHash()
			if p.Received() || p.Waiting() {
				s.positivePolls[k] = true
			}
			if p.Failed() && s.rejectedAt[k] > s.voidBefore[k] {
				// the sender now knows that the copy assembled from everything acknowledged up to that
				// point was rejected; it has to put every byte on record again
				s.voidBefore[k] = s.rejectedAt[k]
			}
		}
		s.mu.Unlock()
		r.reply <- reqResult{polled: out}
	case "recover":
		if f.Kind == XRefuse || f.Kind == XLostAnswer {
			s.t.Note("@%s data-recovery refused: %s", s.clock(), r.desc)
			r.reply <- reqResult{err: errTransport}
			return
		}
		meta, err := r.pl.EncodeHeader()
		if err != nil {
			r.reply <- reqResult{err: err}
			return
		}
		dec, err := payload.NewDecoder(0, "/", bytes.NewReader(meta))
		if err != nil {
			r.reply <- reqResult{err: err}
			return
		}
		n := s.w.st.Received(dec.GetParts())
		s.tell(r.gen, dec.GetParts(), n)
		s.t.Note("@%s data-recovery %s-> %d", s.clock(), r.desc, n)
		r.reply <- reqResult{n: n}
	case "data":
		s.serveData(r, f)
	}
}

func (s *Sim) serveData(r *req, f Fault) {
	if f.Kind == XRefuse {
		s.t.Note("@%s data refused: %s", s.clock(), r.desc)
		r.reply <- reqResult{err: errTransport}
		return
	}
	meta, err := r.pl.EncodeHeader()
	if err != nil {
		r.reply <- reqResult{err: err}
		return
	}
	enc := r.pl.GetEncoder()
	body, rerr := io.ReadAll(enc)
	enc.Close()
	if rerr != nil {
		s.t.Note("@%s data: sender could not read its files: %v", s.clock(), rerr)
		r.reply <- reqResult{err: rerr}
		return
	}
	dec, err := payload.NewDecoder(len(meta), "/", io.MultiReader(bytes.NewReader(meta), bytes.NewReader(body)))
	if err != nil {
		s.t.Note("@%s data: decoder refused: %v", s.clock(), err)
		r.reply <- reqResult{err: err}
		return
	}
	parts := dec.GetParts()
	s.w.st.Prepare(parts)
	nOK := 0
	var outErr error
	pos := int64(0)
	for i := 0; ; i++ {
		rd, eof := dec.Next()
		if eof {
			break
		}
		if i >= len(parts) {
			outErr = errors.New("part index overflow")
			break
		}
		p := parts[i]
		beg, end := p.GetSlice()
		var reader io.Reader = rd
		if (f.Kind == XPartial || f.Kind == XCut) && i == f.K%len(parts) {
			j := f.J % (end - beg)
			reader = io.MultiReader(io.LimitReader(rd, j), &failReader{})
		}
		if f.Kind == XFlip && (f.All || i == f.K%len(parts)) {
			data, _ := io.ReadAll(rd)
			if len(data) > 0 {
				data[f.J%int64(len(data))] ^= 0x40
			}
			reader = bytes.NewReader(data)
			s.mu.Lock()
			s.retransAllowed[p.GetName()+"|"+p.GetFileHash()] = true
			s.mu.Unlock()
		}
		if s.emptyWatch && (p.GetFileSize() == 0 || p.GetFileHash() == md5hex(nil)) {
			s.viol("C17", "empty-file-transmitted", "a part [%d,%d) of %s was transmitted for a file of %d bytes with the hash %.6s (an empty file is not eligible)",
				beg, end, p.GetName(), p.GetFileSize(), p.GetFileHash())
		}
		if age := time.Since(p.GetFileTime()); s.conf.MinAge > 0 && age < s.conf.MinAge {
			// the scan measures a file's age against its own start, and nothing is sent before a scan saw it
			s.viol("C17", "too-young-file-transmitted", "bytes [%d,%d) of %s (version %.6s, modified %v ago) were transmitted although the minimum age is %v",
				beg, end, p.GetName(), p.GetFileHash(), age, s.conf.MinAge)
		}
		file := &sts.Partial{Name: p.GetName(), Renamed: p.GetRenamed(), Prev: p.GetPrev(), Size: p.GetFileSize(),
			Time: marshal.NanoTime{Time: p.GetFileTime()}, Hash: p.GetFileHash(), Source: "sim",
			Parts: []*sts.ByteRange{{Beg: beg, End: end}}}
		e := s.w.st.Receive(file, reader)
		if e != nil {
			outErr = e
			break
		}
		nOK++
		s.mu.Lock()
		s.seq++
		s.wire = append(s.wire, wirePart{p.GetName(), p.GetFileHash(), beg, end, r.gen, s.w.gen, s.seq})
		s.bytesOnWire += end - beg
		s.mu.Unlock()
		pos += end - beg
	}
	_ = pos
	s.w.restamp()
	switch {
	case f.Kind == XLostAnswer:
		s.t.Note("@%s data %s-> processed %d parts, answer lost", s.clock(), r.desc, nOK)
		r.reply <- reqResult{err: errTransport}
	case f.Kind == XCut:
		s.t.Note("@%s data %s-> connection cut in part %d, %d parts recorded", s.clock(), r.desc, f.K%len(parts), nOK)
		r.reply <- reqResult{err: errTransport}
	case outErr != nil:
		s.tell(r.gen, parts, nOK)
		s.t.Note("@%s data %s-> 206 after %d parts (%v)", s.clock(), r.desc, nOK, outErr)
		r.reply <- reqResult{n: nOK, err: fmt.Errorf("partial content: %d", nOK)}
	default:
		s.tell(r.gen, parts, len(parts))
		s.t.Note("@%s data %s-> ok%s", s.clock(), r.desc, map[bool]string{true: " (byte flipped)", false: ""}[f.Kind == XFlip])
		r.reply <- reqResult{n: len(parts)}
	}
}

// tell: the sender learns that the first n parts are on the receiver's record.
func (s *Sim) tell(gen int, parts []sts.Binned, n int) {
	s.mu.Lock()
	defer s.mu.Unlock()
	for i := 0; i < n && i < len(parts); i++ {
		beg, end := parts[i].GetSlice()
		s.seq++
		s.told = append(s.told, wirePart{parts[i].GetName(), parts[i].GetFileHash(), beg, end, gen, s.w.gen, s.seq})
	}
}

type failReader struct{}

func (failReader) Read([]byte) (int, error) { return 0, io.ErrUnexpectedEOF }

// Pump serves pending requests without faults until the sender is at rest
// with nothing pending; returns the number served. maxReq 0 = no limit.
func (s *Sim) Pump(maxReq int) int {
	n := 0
	for {
		p := s.Pending()
		if len(p) == 0 {
			return n
		}
		s.Serve(p[0], Fault{})
		s.observe()
		n++
		if maxReq > 0 && n >= maxReq {
			return n
		}
	}
}

// RestartReceiver: clean restart between requests.
func (s *Sim) RestartReceiver() {
	s.w.Restart()
	s.restartsR++
	s.lastPerturb = time.Now()
	s.mu.Lock()
	for k := range s.retransAllowed {
		_ = k
	}
	s.mu.Unlock()
}

// ---------------------------------------------------------------------------
// monitors

func (s *Sim) observe() {
	s.raiseDeferred()
	w := s.w
	arr := w.Consume()
	if len(arr) == 0 {
		return
	}
	recs := w.LogRecords()
	for _, a := range arr {
		v := a.Ver
		if v == nil {
			s.viol("C01", "delivered-content-not-a-source-version", "file %s (md5 %s, %d bytes) in the final directory equals no version the source file ever had", a.Target, a.MD5, a.Size)
			continue
		}
		announced := false
		s.mu.Lock()
		for _, wp := range s.wire {
			if wp.name == v.Name && wp.hash == a.MD5 {
				announced = true
			}
		}
		s.mu.Unlock()
		if !announced {
			s.viol("C01", "delivered-hash-never-announced", "%s delivered with md5 %s which no part header announced", a.Target, a.MD5)
		}
		nrec := 0
		for _, r := range recs {
			if r.Name == v.Name && r.Hash == a.MD5 {
				nrec++
			}
		}
		if nrec == 0 {
			s.viol("C01", "delivered-without-log-record", "%s (md5 %s) delivered without a receive-log record", a.Target, a.MD5)
		}
		cnt := 0
		for _, b := range w.arrivals {
			if b.Target == a.Target && b.MD5 == a.MD5 {
				cnt++
			}
		}
		if cnt > 1 {
			s.viol("C05", "delivered-twice", "version %s#%.6s was delivered %d times", v.Name, a.MD5, cnt)
		}
		if nrec > 1+w.crashes {
			s.viol("C05", "logged-twice", "version %s#%.6s has %d receive-log records", v.Name, a.MD5, nrec)
		}
	}
}

func (s *Sim) onPartials(gen int, ps []*sts.Partial) {
	s.mu.Lock()
	defer s.mu.Unlock()
	if s.listedAt[gen] != nil {
		return // only the first answer a generation gets counts as "at restart"
	}
	l := map[string][]rng{}
	for _, p := range ps {
		for _, r := range p.Parts {
			l[p.Name+"|"+p.Hash] = append(l[p.Name+"|"+p.Hash], rng{r.Beg, r.End})
		}
	}
	s.listedAt[gen] = l
	h := map[string]bool{}
	for _, a := range s.w.arrivals {
		if a.Ver != nil {
			h[a.Ver.Name+"|"+a.MD5] = true
		}
	}
	s.heldAt[gen] = h
}

func (s *Sim) Close() {
	s.mu.Lock()
	for g := 0; g <= s.gen; g++ {
		s.dead[g] = true
	}
	pend := s.pending
	s.pending = nil
	s.mu.Unlock()
	for _, r := range pend {
		r.reply <- reqResult{err: errDead}
	}
	if s.stopCh != nil {
		select {
		case s.stopCh <- false:
		default:
		}
	}
	synctest.Wait()
	for k, n := range s.others {
		s.t.Note("other monitor hit: %s x%d", k, n)
	}
	s.w.Close()
}

var _ = stage.New

func cacheReload(s *Sim) (*cache.JSON, error) { return cache.NewJSON(s.cacheDir, s.srcDir, "") }

// Package payloadx checks payload.Bin / Encoder / Decoder: C11 (parts tile the
// chunks, payload allowance, Split) and C13 (wire format round trip in memory,
// malformed headers and early ends are refused).
package payloadx

import (
	"bytes"
	"compress/gzip"
	"fmt"
	"io"
	"os"
	"path/filepath"
	"strings"
	"testing"
	"time"

	"github.com/arm-doe/sts"
	"github.com/arm-doe/sts/log"
	"github.com/arm-doe/sts/payload"
	"verif/harness/vt"
)

func TestMain(m *testing.M) {
	log.InitExternal(&vt.QuietLogger{})
	os.Exit(m.Run())
}

// ---------------------------------------------------------------------------

type srcFile struct {
	name string
	data []byte
	tm   time.Time
	hash string
}

func (f *srcFile) GetPath() string    { return "/mem/" + f.name }
func (f *srcFile) GetName() string    { return f.name }
func (f *srcFile) GetSize() int64     { return int64(len(f.data)) }
func (f *srcFile) GetTime() time.Time { return f.tm }
func (f *srcFile) GetMeta() []byte    { return nil }
func (f *srcFile) GetHash() string    { return f.hash }

// chunk is the harness's sts.Binnable (the sender's own is unexported; it is
// exercised in the simulation checks).
type chunk struct {
	*srcFile
	prev      string
	off, n    int64
	send      int64
	allocated int64
}

func (c *chunk) GetPrev() string              { return c.prev }
func (c *chunk) GetSlice() (int64, int64)     { return c.off, c.n }
func (c *chunk) GetSendSize() int64           { return c.send }
func (c *chunk) GetNextAlloc() (int64, int64) { return c.off + c.allocated, c.off + c.n }
func (c *chunk) AddAlloc(n int64)             { c.allocated += n }
func (c *chunk) IsAllocated() bool            { return c.allocated == c.n }

// memReadable serves a file from memory, at most "step" bytes per Read.
type memReadable struct {
	r    *bytes.Reader
	step int
}

func (m *memReadable) Read(p []byte) (int, error) {
	if m.step > 0 && len(p) > m.step {
		p = p[:m.step]
	}
	return m.r.Read(p)
}
func (m *memReadable) Seek(o int64, w int) (int64, error) { return m.r.Seek(o, w) }
func (m *memReadable) Close() error                       { return nil }

func opener(step int) sts.Open {
	return func(f sts.File) (sts.Readable, error) {
		var sf *srcFile
		switch v := f.(type) {
		case *chunk:
			sf = v.srcFile
		case *srcFile:
			sf = v
		default:
			return nil, fmt.Errorf("unknown file type %T", f)
		}
		return &memReadable{r: bytes.NewReader(sf.data), step: step}, nil
	}
}

type span struct {
	file     string
	beg, end int64
}

// ---------------------------------------------------------------------------
// C11: packing and splitting

func genFiles(t *vt.T, maxFiles, maxSize int, alphabet string) []*srcFile {
	n := t.IntRange("nFiles", 1, maxFiles)
	files := make([]*srcFile, n)
	for i := range files {
		size := t.IntRange("fsize", 1, maxSize)
		data := make([]byte, size)
		seed := t.IntRange("fseed", 0, 250)
		for j := range data {
			data[j] = alphabet[(seed+j*7+i*13)%len(alphabet)]
		}
		files[i] = &srcFile{name: fmt.Sprintf("d%d/f%d.dat", i%2, i), data: data,
			tm: time.Unix(1600000000+int64(i), int64(t.IntRange("nanos", 0, 999999999))), hash: fmt.Sprintf("%032x", i+1)}
	}
	return files
}

const printable = "ABCDEFGHIJKLMNOPQRSTUVWXYZabcdefghijklmnopqrstuvwxyz0123456789!#$%&()*+,-./:;<=>?@[]^_{|}~"

// pack mimics the sender's binner loop: add until full, carry the remainder.
func pack(t *vt.T, chunks []*chunk, psize int64, op sts.Open) (payloads []sts.Payload, dropped []*chunk) {
	var p sts.Payload
	for _, c := range chunks {
		for {
			if p == nil {
				p = payload.NewBin(psize, op, nil)
			}
			added := p.Add(c)
			full := p.IsFull()
			if full {
				payloads = append(payloads, p)
				p = nil
			}
			if !added {
				dropped = append(dropped, c)
				break
			}
			if c.IsAllocated() {
				break
			}
		}
	}
	if p != nil && p.GetSize() > 0 {
		payloads = append(payloads, p)
	}
	return
}

func propPack(t *vt.T) {
	files := genFiles(t, 4, 60, printable)
	csize := int64(t.IntRange("chunkSize", 1, 40))
	psize := int64(t.IntRange("payloadSize", 10, 80))
	if t.Weighted("tinyPayload", 9, 1) == 1 {
		psize = int64(t.IntRange("tinyPayloadSize", 1, 9))
		t.Class("payload-below-10-bytes")
	}
	t.Note("chunk=%d payload=%d", csize, psize)
	// chunks in file order, as the queue would emit them
	var chunks []*chunk
	want := map[string][]span{}
	for _, f := range files {
		size := f.GetSize()
		for off := int64(0); off < size; off += csize {
			n := csize
			if off+n > size {
				n = size - off
			}
			chunks = append(chunks, &chunk{srcFile: f, off: off, n: n, send: size})
		}
		want[f.name] = []span{{f.name, 0, size}}
		t.Note("file %s size=%d", f.name, size)
	}
	payloads, dropped := pack(t, chunks, psize, opener(0))
	if len(dropped) > 0 {
		d := dropped[0]
		key := "binner-drops-chunk"
		if psize < 10 {
			key = "binner-drops-chunk-when-payload-below-10-bytes"
		}
		if t.Violation(key, "payload size %d: chunk [%d,+%d) of %s was not added to a payload that is not full; the binner drops it", psize, d.off, d.n, d.name) {
			return
		}
	}
	allow := psize + psize/10
	got := map[string][]span{}
	multi := false
	for i, p := range payloads {
		var sum int64
		perFile := map[string]int{}
		for _, b := range p.GetParts() {
			beg, n := b.GetSlice()
			if n <= 0 {
				t.Violation("empty-part", "payload %d: empty part of %s at %d", i, b.GetName(), beg)
			}
			sum += n
			got[b.GetName()] = append(got[b.GetName()], span{b.GetName(), beg, beg + n})
			perFile[b.GetName()]++
		}
		if len(perFile) >= 2 {
			t.Class("several-files-in-one-payload")
		}
		if sum != p.GetSize() {
			t.Violation("size-mismatch", "payload %d: GetSize=%d but parts add up to %d", i, p.GetSize(), sum)
		}
		if sum > allow {
			t.Violation("over-allowance", "payload %d has %d bytes, allowance is %d (+10%% of %d)", i, sum, allow, psize)
		}
		t.Note("payload %d: %d parts %d bytes", i, len(p.GetParts()), sum)
	}
	for _, f := range files {
		spans := got[f.name]
		pos := int64(0)
		for _, s := range spans {
			if s.beg != pos {
				t.Violation("parts-not-tiling", "file %s: part [%d,%d) follows offset %d (gap, overlap or disorder); parts=%v", f.name, s.beg, s.end, pos, spans)
			}
			if s.end-s.beg > csize {
				t.Violation("part-larger-than-chunk", "file %s: part [%d,%d) larger than chunk %d", f.name, s.beg, s.end, csize)
			}
			pos = s.end
		}
		if pos != f.GetSize() {
			t.Violation("parts-not-covering", "file %s: parts end at %d, size %d", f.name, pos, f.GetSize())
		}
		if len(spans) >= 2 {
			multi = true
			t.Class("file-in-several-parts")
		}
	}
	// ---- Split
	nsplit := 0
	for i, p := range payloads {
		parts := p.GetParts()
		n := len(parts)
		if p.Split(0) != nil || p.Split(n) != nil || len(p.GetParts()) != n {
			t.Violation("split-degenerate", "Split(0)/Split(n) must return nil and leave the payload alone")
		}
		if n < 2 {
			continue
		}
		k := t.IntRange("splitAt", 1, n-1)
		before := describe(parts)
		size := p.GetSize()
		tail := p.Split(k)
		if tail == nil {
			t.Violation("split-nil", "payload %d: Split(%d) of %d parts returned nil", i, k, n)
		}
		after := describe(append(p.GetParts(), tail.GetParts()...))
		if before != after {
			t.Violation("split-parts", "payload %d Split(%d): parts before %s, head+tail %s", i, k, before, after)
		}
		if len(p.GetParts()) != k {
			t.Violation("split-position", "payload %d Split(%d): head has %d parts", i, k, len(p.GetParts()))
		}
		if p.GetSize()+tail.GetSize() != size || p.GetSize() != sumParts(p) || tail.GetSize() != sumParts(tail) {
			t.Violation("split-sizes", "payload %d Split(%d): sizes %d + %d, parts %d + %d, before %d", i, k, p.GetSize(), tail.GetSize(), sumParts(p), sumParts(tail), size)
		}
		nsplit++
	}
	if nsplit > 0 {
		t.Class("split")
	}
	if multi && len(payloads) >= 2 {
		t.NonTrivial()
	}
}

func sumParts(p sts.Payload) (n int64) {
	for _, b := range p.GetParts() {
		_, l := b.GetSlice()
		n += l
	}
	return
}

func describe(parts []sts.Binned) string {
	var sb strings.Builder
	for _, b := range parts {
		beg, n := b.GetSlice()
		fmt.Fprintf(&sb, "%s[%d,%d) ", b.GetName(), beg, beg+n)
	}
	return sb.String()
}

func TestC11Pack(t *testing.T) { vt.Check(t, "C11", propPack) }

// ---------------------------------------------------------------------------
// C13: round trip in memory

var nameAlphabet = []rune("abcXYZ09 ._-:äß日本/\\")

type wirePart struct {
	name, renamed, prev, hash string
	tm                        time.Time
	size, beg, end            int64
	data                      []byte
}

type renFile struct{ sts.File }

func buildPayload(t *vt.T, sep string, maxParts int) (p sts.Payload, want []wirePart, minPart int) {
	nf := t.IntRange("nFiles", 1, 5)
	files := make([]*srcFile, nf)
	renames := map[string]string{}
	for i := range files {
		size := t.IntRange("fsize", 1, 70)
		data := make([]byte, size)
		seed := t.IntRange("fseed", 0, 250)
		for j := range data {
			data[j] = printable[(seed+j*7+i*13)%len(printable)]
		}
		name := strings.Trim(t.StringOf("name", nameAlphabet, 1, 12), "/\\")
		if name == "" {
			name = "x"
		}
		name = fmt.Sprintf("%s%d", name, i) // unique
		files[i] = &srcFile{name: name, data: data,
			tm: time.Unix(int64(t.IntRange("secs", 0, 2000000000)), int64(t.IntRange("nanos", 0, 999999999))), hash: fmt.Sprintf("%032x", t.IntRange("hash", 0, 1<<30))}
		if t.Bool("renamed") {
			renames[name] = t.StringOf("rename", nameAlphabet, 1, 12)
		}
	}
	renamer := func(f sts.File) string { return renames[f.GetName()] }
	step := t.OneOf("fileReadStep", "0", "1", "3", "7")
	st := 0
	fmt.Sscan(step, &st)
	p = payload.NewBin(1<<30, opener(st), renamer)
	np := t.IntRange("nParts", 1, maxParts)
	minPart = 1 << 30
	pos := make([]int64, nf)
	for i := 0; i < np; i++ {
		fi := t.Pick("partFile", nf)
		f := files[fi]
		size := f.GetSize()
		var beg, end int64
		switch t.Weighted("sliceKind", 3, 2, 2, 2) {
		case 0: // continue where the previous part of this file ended
			beg = pos[fi]
			if beg >= size {
				beg = 0
			}
			end = beg + int64(t.IntRange("len", 1, int(size-beg)))
		case 1: // whole file
			beg, end = 0, size
		case 2: // tail
			beg = int64(t.IntRange("beg", 0, int(size-1)))
			end = size
		default: // arbitrary middle
			beg = int64(t.IntRange("beg", 0, int(size-1)))
			end = beg + int64(t.IntRange("len", 1, int(size-beg)))
		}
		pos[fi] = end
		prev := ""
		if t.Bool("hasPrev") {
			prev = t.StringOf("prev", nameAlphabet, 1, 10)
		}
		c := &chunk{srcFile: f, prev: prev, off: beg, n: end - beg, send: size}
		if !p.Add(c) {
			t.Violation("add-failed", "Add refused part [%d,%d) of %s in an empty-enough payload", beg, end, f.name)
		}
		if int(end-beg) < minPart {
			minPart = int(end - beg)
		}
		conv := func(s string) string {
			if s == "" {
				return filepath.Join(strings.Split(s, sep)...)
			}
			return filepath.Join(strings.Split(s, sep)...)
		}
		want = append(want, wirePart{name: conv(f.name), renamed: renames[f.name], prev: conv(prev), hash: f.hash,
			tm: f.tm, size: size, beg: beg, end: end, data: f.data[beg:end]})
		t.Note("part %d: %q [%d,%d) of %d prev=%q ren=%q", i, f.name, beg, end, size, prev, renames[f.name])
		if beg > 0 && end < size {
			t.Class("mid-file-slice")
		}
	}
	return
}

// stepReader yields at most n bytes per Read.
type stepReader struct {
	r io.Reader
	n int
}

func (s *stepReader) Read(p []byte) (int, error) {
	if s.n > 0 && len(p) > s.n {
		p = p[:s.n]
	}
	return s.r.Read(p)
}

func encode(t *vt.T, p sts.Payload, bufSize int, level int) (meta []byte, body []byte) {
	meta, err := p.EncodeHeader()
	if err != nil {
		t.Violation("encode-header", "EncodeHeader: %v", err)
	}
	enc := p.GetEncoder()
	var raw bytes.Buffer
	buf := make([]byte, bufSize)
	for guard := 0; ; guard++ {
		n, err := enc.Read(buf)
		raw.Write(buf[:n])
		if err == io.EOF {
			break
		}
		if err != nil {
			t.Violation("encode-body", "encoder: %v", err)
		}
		if guard > 1<<20 {
			t.Violation("encode-loop", "encoder does not terminate")
		}
	}
	enc.Close()
	body = raw.Bytes()
	_ = level
	return
}

func decodeWithTimeout(metaLen int, sep string, r io.Reader) (dec sts.PayloadDecoder, err error, hung bool) {
	type res struct {
		d sts.PayloadDecoder
		e error
	}
	ch := make(chan res, 1)
	go func() {
		d, e := payload.NewDecoder(metaLen, sep, r)
		ch <- res{d, e}
	}()
	select {
	case x := <-ch:
		return x.d, x.e, false
	case <-time.After(3 * time.Second):
		return nil, nil, true
	}
}

// earlierLife puts the payload through what the send loop may do to it before the
// transmission that is checked: a first attempt (header and body encoded once), then
// nothing, the removal of a part whose file vanished, or a split after a partly
// successful request. The expected part list follows the payload's own.
func earlierLife(t *vt.T, p sts.Payload, want []wirePart) (sts.Payload, []wirePart) {
	life := t.Weighted("earlierLife", 4, 1, 2, 2)
	if life == 0 {
		return p, want
	}
	byPart := map[sts.Binned]wirePart{}
	for i, g := range p.GetParts() {
		byPart[g] = want[i]
	}
	if _, err := p.EncodeHeader(); err != nil {
		t.Violation("encode-header", "EncodeHeader: %v", err)
	}
	if t.Bool("firstAttemptBody") {
		enc := p.GetEncoder()
		io.Copy(io.Discard, enc)
		enc.Close()
	}
	t.Class("retransmitted-payload")
	parts := p.GetParts()
	switch {
	case life == 2 && len(parts) >= 2:
		i := t.Pick("removePart", len(parts))
		p.Remove(parts[i])
		t.Class("part-removed-after-first-attempt")
		t.Note("first attempt, then part %d removed", i)
	case life == 3 && len(parts) >= 2:
		k := t.IntRange("splitAt", 1, len(parts)-1)
		tail := p.Split(k)
		if tail == nil {
			t.Violation("split-refused", "Split(%d) of %d parts returned nil", k, len(parts))
		}
		t.Class("split-after-first-attempt")
		if t.Bool("sendTail") {
			p = tail
		}
		t.Note("first attempt, then split at %d", k)
	}
	var w2 []wirePart
	for _, g := range p.GetParts() {
		w2 = append(w2, byPart[g])
	}
	return p, w2
}

func propRoundTrip(t *vt.T) {
	sep := t.OneOf("sep", "/", "\\")
	p, want, minPart := buildPayload(t, sep, 8)
	p, want = earlierLife(t, p, want)
	bufSize := t.OneOf("encBuf", "4096", "1", "2", "5", "13", "64")
	bs := 0
	fmt.Sscan(bufSize, &bs)
	meta, body := encode(t, p, bs, 0)
	var wantBody []byte
	for _, w := range want {
		wantBody = append(wantBody, w.data...)
	}
	if !bytes.Equal(body, wantBody) {
		t.Violation("encoder-bytes", "encoder produced %d bytes, expected %d (the concatenation of the part slices); first difference at %d", len(body), len(wantBody), firstDiff(body, wantBody))
	}
	// through gzip, as the HTTP client does
	level := t.IntRange("gzip", 0, 9)
	var stream io.Reader = io.MultiReader(bytes.NewReader(meta), bytes.NewReader(body))
	if level > 0 {
		var zb bytes.Buffer
		zw, _ := gzip.NewWriterLevel(&zb, level)
		zw.Write(meta)
		zw.Write(body)
		zw.Close()
		zr, err := gzip.NewReader(&zb)
		if err != nil {
			t.Violation("gzip", "gzip reader: %v", err)
		}
		stream = zr
	}
	rs := 0
	fmt.Sscan(t.OneOf("netStep", "0", "1", "3", "11"), &rs)
	stream = &stepReader{r: stream, n: rs}
	dec, err, hung := decodeWithTimeout(len(meta), sep, stream)
	if hung {
		t.Violation("decoder-hangs-valid", "NewDecoder did not return for a well-formed payload")
	}
	if err != nil {
		t.Violation("decoder-error-valid", "NewDecoder failed on a well-formed payload: %v", err)
	}
	got := dec.GetParts()
	if len(got) != len(want) {
		t.Violation("part-count", "decoded %d parts, encoded %d", len(got), len(want))
	}
	db := 0
	fmt.Sscan(t.OneOf("decBuf", "4096", "1", "2", "5", "16"), &db)
	for i, w := range want {
		g := got[i]
		beg, end := g.GetSlice()
		if g.GetName() != w.name || g.GetRenamed() != w.renamed || g.GetPrev() != w.prev || g.GetFileHash() != w.hash ||
			g.GetFileSize() != w.size || beg != w.beg || end != w.end || !g.GetFileTime().Equal(w.tm) {
			t.Violation("descriptor-mismatch", "part %d decoded as name=%q ren=%q prev=%q hash=%s time=%v size=%d [%d,%d); encoded name=%q ren=%q prev=%q hash=%s time=%v size=%d [%d,%d)",
				i, g.GetName(), g.GetRenamed(), g.GetPrev(), g.GetFileHash(), g.GetFileTime().UnixNano(), g.GetFileSize(), beg, end,
				w.name, w.renamed, w.prev, w.hash, w.tm.UnixNano(), w.size, w.beg, w.end)
		}
		rd, eof := dec.Next()
		if eof {
			t.Violation("next-eof-early", "decoder reported end before part %d of %d", i, len(want))
		}
		var data []byte
		buf := make([]byte, db)
		for guard := 0; ; guard++ {
			n, err := rd.Read(buf)
			data = append(data, buf[:n]...)
			if err == io.EOF {
				break
			}
			if err != nil {
				t.Violation("part-read-error", "part %d: %v", i, err)
			}
			if guard > 1<<16 {
				t.Violation("part-read-loop", "part %d reader does not end", i)
			}
		}
		if !bytes.Equal(data, w.data) {
			t.Violation("part-bytes", "part %d (%s [%d,%d)): read %d bytes %q, expected %d bytes %q", i, w.name, w.beg, w.end, len(data), trunc(data), len(w.data), trunc(w.data))
		}
	}
	if _, eof := dec.Next(); !eof {
		t.Violation("next-not-eof", "decoder offers more parts than the header lists")
	}
	if len(want) >= 2 && t.HasClass("mid-file-slice") && (bs < minPart || db < minPart || true) {
		files := map[string]bool{}
		for _, w := range want {
			files[w.name] = true
		}
		small := false
		for _, w := range want {
			if bs < len(w.data) || db < len(w.data) {
				small = true
			}
		}
		if len(files) >= 2 && small {
			t.NonTrivial()
		}
	}
}

func trunc(b []byte) string {
	if len(b) > 40 {
		return string(b[:40]) + "..."
	}
	return string(b)
}

func firstDiff(a, b []byte) int {
	for i := 0; i < len(a) && i < len(b); i++ {
		if a[i] != b[i] {
			return i
		}
	}
	if len(a) < len(b) {
		return len(a)
	}
	return len(b)
}

func TestC13RoundTrip(t *testing.T) { vt.Check(t, "C13", propRoundTrip) }

// ---------------------------------------------------------------------------
// C13: malformed streams

// receive emulates what the data route does with a decoder: walk the parts in
// header order, read each reader to its end; a part counts as received only
// when the reader delivered exactly end-beg bytes without error.
func receiveAll(dec sts.PayloadDecoder) (complete [][]byte, err error) {
	parts := dec.GetParts()
	for i := 0; ; i++ {
		rd, eof := dec.Next()
		if eof {
			return
		}
		if i >= len(parts) {
			return complete, fmt.Errorf("index overflow")
		}
		beg, end := parts[i].GetSlice()
		data, e := io.ReadAll(rd)
		if e != nil {
			return complete, e
		}
		if int64(len(data)) != end-beg {
			return complete, fmt.Errorf("short part")
		}
		complete = append(complete, data)
	}
}

func propMalformed(t *vt.T) {
	sep := "/"
	p, want, _ := buildPayload(t, sep, 5)
	meta, body := encode(t, p, 4096, 0)
	full := append(append([]byte{}, meta...), body...)
	kind := t.Weighted("malform", 3, 3, 3, 2, 2)
	declared := len(meta)
	stream := full
	if f := os.Getenv("VT_FORCE_MALFORM"); f != "" && f != fmt.Sprint(kind) {
		t.Skip("other kind forced")
	}
	switch kind {
	case 0: // stream cut inside the header
		cut := t.IntRange("cutHeader", 0, len(meta)-1)
		stream = full[:cut]
		t.Class("cut-in-header")
		t.Note("stream cut at %d of header %d", cut, len(meta))
	case 1: // declared header length too short
		d := t.IntRange("shortBy", 1, min(len(meta)-1, 12))
		declared = len(meta) - d
		t.Class("declared-short")
		t.Note("declared header length %d, real %d", declared, len(meta))
	case 2: // declared header length too long (eats body bytes)
		d := t.IntRange("longBy", 1, min(len(body), 12))
		declared = len(meta) + d
		t.Class("declared-long")
		t.Note("declared header length %d, real %d", declared, len(meta))
	case 3: // header is not JSON
		i := t.IntRange("garbleAt", 0, len(meta)-1)
		stream = append([]byte{}, full...)
		stream[i] = "}x\"["[t.Pick("garbleWith", 4)]
		t.Class("garbled-header")
		t.Note("header byte %d replaced by %q", i, stream[i])
	case 4: // stream cut inside the body
		cut := t.IntRange("cutBody", len(meta), len(full)-1)
		stream = full[:cut]
		t.Class("cut-in-body")
		t.Note("stream cut at body offset %d of %d", cut-len(meta), len(body))
	}
	t.NonTrivial()
	dec, err, hung := decodeWithTimeout(declared, sep, bytes.NewReader(stream))
	if hung {
		key := "decoder-hangs-on-truncated-or-short-header"
		t.Violation(key, "NewDecoder never returns (declared header %d bytes, real %d, stream %d bytes): the request is neither refused nor processed", declared, len(meta), len(stream))
		return
	}
	if err != nil {
		return // refused: fine
	}
	if kind == 3 {
		// a garbled header may still be valid JSON describing something else;
		// whatever it describes, the bytes handed out must be the stream's
		return
	}
	// accepted: then every part that is handed out completely must carry
	// exactly its own bytes
	complete, _ := receiveAll(dec)
	for i, data := range complete {
		if i >= len(want) {
			t.Violation("phantom-part", "decoder delivered part %d, only %d were encoded", i, len(want))
		}
		if !bytes.Equal(data, want[i].data) {
			t.Violation("malformed-attributed-to-wrong-part",
				"declared header %d (real %d): accepted, and part %d (%s [%d,%d)) was delivered complete with bytes %q instead of %q",
				declared, len(meta), i, want[i].name, want[i].beg, want[i].end, trunc(data), trunc(want[i].data))
		}
	}
	if kind == 4 && len(complete) == len(want) {
		t.Violation("cut-body-all-complete", "stream cut inside the body but all %d parts were delivered complete", len(want))
	}
}

func TestC13Malformed(t *testing.T) { vt.Check(t, "C13", propMalformed) }

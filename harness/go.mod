module verif/harness

go 1.25.0

require (
	github.com/alecthomas/units v0.0.0-20240927000941-0f3dac36c52b
	github.com/arm-doe/sts v0.0.0
	pgregory.net/rapid v1.3.0
)

require (
	github.com/golang-module/carbon/v2 v2.3.8 // indirect
	go.bryk.io/pkg v0.0.0-20250411182835-130bbccf42ad // indirect
	gopkg.in/yaml.v2 v2.4.0 // indirect
)

replace github.com/arm-doe/sts => /repo

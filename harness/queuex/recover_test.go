//go:build verifhook

package queuex

import (
	"fmt"
	"strings"
	"testing"
	"time"

	"github.com/arm-doe/sts"
	"github.com/arm-doe/sts/client"
	"github.com/arm-doe/sts/payload"
	"github.com/arm-doe/sts/queue"
	"verif/harness/vt"
)

// cached is a sts.Cached for the sender's own resumed-file type.
type cached struct{ hfile }

func (c *cached) IsDone() bool { return false }

// C11: the sender's own resumed-file and chunk types (exposed by the build-time
// overlay) hand out exactly the missing ranges, through the real queue and the
// real payload packing.
func propResumed(t *vt.T) {
	chunk := int64(t.IntRange("chunkSize", 1, 12))
	psize := int64(t.IntRange("payloadSize", 10, 60))
	tags := []*queue.Tag{{Name: "T", Order: sts.OrderFIFO, ChunkSize: chunk}}
	q := queue.NewTagged(tags, func(string) string { return "T" }, func(n string) string { return strings.SplitN(n, "/", 2)[0] })
	nf := t.IntRange("nFiles", 1, 3)
	want := map[string][][2]int64{}
	var batch []sts.Hashed
	for i := 0; i < nf; i++ {
		size := int64(t.IntRange("size", 1, 60))
		name := fmt.Sprintf("g/f%d", i)
		var left []*sts.ByteRange
		pos := int64(0)
		for pos < size && len(left) < 5 {
			gap := int64(t.IntRange("gap", 0, 6))
			beg := pos + gap
			if beg >= size {
				break
			}
			ln := int64(t.IntRange("len", 1, int(size-beg)))
			left = append(left, &sts.ByteRange{Beg: beg, End: beg + ln})
			want[name] = append(want[name], [2]int64{beg, beg + ln})
			pos = beg + ln
		}
		if len(left) == 0 {
			left = []*sts.ByteRange{{Beg: 0, End: size}}
			want[name] = [][2]int64{{0, size}}
		}
		if len(left) >= 2 {
			t.Class("several-missing-ranges")
			t.NonTrivial()
		}
		t.Note("file %s size=%d missing=%v", name, size, want[name])
		c := &cached{hfile{name: name, size: size, tm: base.Add(time.Duration(i) * time.Second), hash: fmt.Sprintf("h%d", i)}}
		batch = append(batch, client.VerifNewRecoverFile(c, "p/prev", left))
	}
	q.Push(batch)
	got := map[string][][2]int64{}
	bin := payload.NewBin(psize, nil, nil)
	var bins []sts.Payload
	for guard := 0; guard < 2000; guard++ {
		c := q.Pop()
		if c == nil {
			break
		}
		off, ln := c.GetSlice()
		t.Note("pop %s [%d,+%d)", c.GetName(), off, ln)
		if ln <= 0 {
			t.Violation("empty-chunk", "resumed file %s: empty or negative chunk [%d,+%d)", c.GetName(), off, ln)
		}
		if ln > chunk {
			t.Violation("chunk-too-large", "resumed file %s: chunk of %d bytes, limit %d", c.GetName(), ln, chunk)
		}
		b := client.VerifNewBinnable(c, false)
		for guard2 := 0; guard2 < 100; guard2++ {
			if !bin.Add(b) {
				t.Violation("part-not-added", "resumed file %s: chunk [%d,+%d) could not be added to a payload that is not full", c.GetName(), off, ln)
			}
			full := bin.IsFull()
			if full {
				bins = append(bins, bin)
				bin = payload.NewBin(psize, nil, nil)
			}
			if b.IsAllocated() {
				break
			}
		}
	}
	if bin.GetSize() > 0 {
		bins = append(bins, bin)
	}
	for _, b := range bins {
		for _, p := range b.GetParts() {
			beg, n := p.GetSlice()
			got[p.GetName()] = append(got[p.GetName()], [2]int64{beg, beg + n})
		}
	}
	for name, w := range want {
		// parts in order must tile exactly the missing ranges
		g := got[name]
		wi := 0
		pos := int64(-1)
		for _, p := range g {
			if wi >= len(w) {
				t.Violation("resumed-parts-beyond-missing", "%s: part [%d,%d) after all missing ranges %v were covered; parts %v", name, p[0], p[1], w, g)
			}
			if pos < 0 {
				pos = w[wi][0]
			}
			if p[0] != pos || p[1] > w[wi][1] || p[1] <= p[0] {
				t.Violation("resumed-parts-not-tiling-missing-ranges", "%s: parts %v do not tile the missing ranges %v (part [%d,%d) where offset %d of range %v was due)", name, g, w, p[0], p[1], pos, w[wi])
			}
			pos = p[1]
			if pos == w[wi][1] {
				wi++
				pos = -1
			}
		}
		if wi != len(w) {
			t.Violation("resumed-parts-not-covering-missing-ranges", "%s: parts %v cover only %d of the missing ranges %v", name, g, wi, w)
		}
	}
}

func TestC11Resumed(t *testing.T) { vt.Check(t, "C11", propResumed) }

// Package queuex checks queue.Tagged against a specification-level reference
// model: C10 (order + predecessor chain), C11 (chunks tile files; queue part)
// and C12 (strict priority, round-robin, last-file delay).
package queuex

import (
	"fmt"
	"os"
	"sort"
	"strings"
	"testing"
	"time"

	"github.com/arm-doe/sts"
	"github.com/arm-doe/sts/log"
	"github.com/arm-doe/sts/queue"
	"verif/harness/vt"
)

func TestMain(m *testing.M) {
	log.InitExternal(&vt.QuietLogger{})
	os.Exit(m.Run())
}

// ---------------------------------------------------------------------------
// files handed to the queue

type hfile struct {
	name string
	size int64
	tm   time.Time
	hash string
}

func (f *hfile) GetPath() string    { return "/src/" + f.name }
func (f *hfile) GetName() string    { return f.name }
func (f *hfile) GetSize() int64     { return f.size }
func (f *hfile) GetTime() time.Time { return f.tm }
func (f *hfile) GetMeta() []byte    { return nil }
func (f *hfile) GetHash() string    { return f.hash }

// rfile is the harness's implementation of sts.Recovered: it hands out
// sub-ranges of its missing ranges in order (the contract the sender's own
// implementation has to meet; that one is exercised end-to-end in the
// simulation checks).
type rfile struct {
	hfile
	prev string
	left [][2]int64
	part int
	used int64
}

func (f *rfile) GetPrev() string { return f.prev }
func (f *rfile) Allocate(desired int64) (int64, int64) {
	if f.part >= len(f.left) {
		return 0, 0
	}
	off := f.left[f.part][0] + f.used
	n := desired
	if n <= 0 || off+n >= f.left[f.part][1] {
		n = f.left[f.part][1] - off
		f.part++
		f.used = 0
	} else {
		f.used += n
	}
	return off, n
}
func (f *rfile) IsAllocated() bool { return f.part == len(f.left) }
func (f *rfile) GetSendSize() int64 {
	var n int64
	for _, r := range f.left {
		n += r[1] - r[0]
	}
	return n
}

// ---------------------------------------------------------------------------
// reference model

const (
	kNormal = iota
	kPlaceholder
	kRecovered
)

type mFile struct {
	name    string
	tm      time.Time
	size    int64
	seq     int
	kind    int
	prev    string     // own predecessor (kRecovered)
	left    [][2]int64 // what must be emitted
	emitted [][2]int64 // what has been emitted
	young   bool
	passed  bool // placeholder already passed in the chain
}

func (f *mFile) sendSize() int64 {
	var n int64
	for _, r := range f.left {
		n += r[1] - r[0]
	}
	return n
}
func (f *mFile) emittedSize() int64 {
	var n int64
	for _, r := range f.emitted {
		n += r[1] - r[0]
	}
	return n
}
func (f *mFile) pending() bool { return f.emittedSize() < f.sendSize() }

type mGroup struct {
	name      string
	tag       *queue.Tag
	files     map[string]*mFile
	completed []string // completion order (emitted completely)
	doneSet   map[string]bool
	phSet     map[string]bool // placeholders pushed (already sent)
	everSeen  map[string]*mFile
	sawRecov  bool            // any Recovered file pushed into this group
	lostChain bool            // the sole half-emitted head was re-pushed (see DESIGN, finding Q1)
	served    int
}

func less(order string, a, b *mFile) bool {
	switch order {
	case sts.OrderAlpha:
		return a.name < b.name
	case sts.OrderFIFO:
		if a.tm.Equal(b.tm) {
			return a.name < b.name
		}
		return a.tm.Before(b.tm)
	case sts.OrderLIFO:
		if a.tm.Equal(b.tm) {
			return a.name < b.name
		}
		return a.tm.After(b.tm)
	}
	return a.seq < b.seq
}

func (g *mGroup) pendingSorted() []*mFile {
	var l []*mFile
	for _, f := range g.files {
		if f.pending() {
			l = append(l, f)
		}
	}
	sort.Slice(l, func(i, j int) bool { return less(g.tag.Order, l[i], l[j]) })
	return l
}

// allSorted returns pending files and not-yet-passed placeholders in order.
func (g *mGroup) ready(delay time.Duration) bool {
	p := g.pendingSorted()
	if len(p) == 0 {
		return false
	}
	if delay > 0 && len(p) == 1 && len(g.files) == 1 && p[0].young {
		return false
	}
	return true
}

type model struct {
	groups map[string]*mGroup
	order  []string // creation order of groups
	seq    int
}

// ---------------------------------------------------------------------------
// generator profile

type profile struct {
	property   string
	recovered  bool // generate Recovered files / placeholders
	dupNames   bool // push a name again
	lastDelay  bool
	maxGroups  int
	maxTags    int
	maxOps     int
	priorities int
}

var base = time.Date(2020, 1, 1, 0, 0, 0, 0, time.UTC)

func runQueue(t *vt.T, p profile) {
	nTags := t.IntRange("nTags", 1, p.maxTags)
	orders := []string{sts.OrderFIFO, sts.OrderLIFO, sts.OrderAlpha, sts.OrderNone}
	tags := make([]*queue.Tag, nTags)
	for i := range tags {
		tags[i] = &queue.Tag{
			Name:      fmt.Sprintf("T%d", i),
			Priority:  t.IntRange("prio", 0, p.priorities-1),
			Order:     orders[t.Pick("order", len(orders))],
			ChunkSize: int64(t.IntRange("chunk", 1, 9)),
		}
		if p.lastDelay && t.Bool("hasDelay") {
			tags[i].LastDelay = time.Hour
		}
		t.Note("tag %s prio=%d order=%q chunk=%d delay=%v", tags[i].Name, tags[i].Priority, tags[i].Order, tags[i].ChunkSize, tags[i].LastDelay)
	}
	nGroups := t.IntRange("nGroups", 1, p.maxGroups)
	groupTag := make(map[string]string)
	for i := 0; i < nGroups; i++ {
		groupTag[fmt.Sprintf("g%d", i)] = tags[t.Pick("groupTag", nTags)].Name
	}
	tagger := func(group string) string { return groupTag[group] }
	grouper := func(name string) string { return strings.SplitN(name, "/", 2)[0] }
	q := queue.NewTagged(tags, tagger, grouper)
	m := &model{groups: map[string]*mGroup{}}
	tagByName := map[string]*queue.Tag{}
	for _, tg := range tags {
		tagByName[tg.Name] = tg
	}

	// per-pop log for the round-robin oracle
	type popRec struct {
		group string
		ready map[string]bool
	}
	var pops []popRec
	prios := map[int]bool{}
	pushAfterPop, multiChunk, sawEqualReady := false, false, false
	popped := false

	nOps := t.IntRange("nOps", 1, p.maxOps)
	for op := 0; op < nOps; op++ {
		if t.Weighted("op", 2, 3) == 0 {
			// ---------------------------------------------------------- Push
			n := t.IntRange("batch", 1, 3)
			var batch []sts.Hashed
			for i := 0; i < n; i++ {
				gname := fmt.Sprintf("g%d", t.Pick("group", nGroups))
				idMax := 11
				if !p.dupNames {
					idMax = 0
				}
				var name string
				if p.dupNames && t.Weighted("reuse", 5, 1) == 1 {
					name = fmt.Sprintf("%s/f%d", gname, t.IntRange("id", 0, idMax))
				} else {
					name = fmt.Sprintf("%s/n%d", gname, m.seq)
				}
				size := int64(t.IntRange("size", 1, 24))
				tm := base.Add(time.Duration(t.IntRange("time", 0, 5)) * time.Second)
				young := false
				if p.lastDelay && t.Weighted("young", 2, 1) == 1 {
					young = true
					tm = time.Now().Add(48*time.Hour + time.Duration(t.IntRange("ytime", 0, 3))*time.Second)
				}
				kind := kNormal
				if p.recovered {
					kind = t.Weighted("kind", 4, 1, 2)
				}
				g := m.groups[gname]
				if g == nil {
					g = &mGroup{name: gname, tag: tagByName[groupTag[gname]], files: map[string]*mFile{},
						doneSet: map[string]bool{}, phSet: map[string]bool{}, everSeen: map[string]*mFile{}}
					m.groups[gname] = g
					m.order = append(m.order, gname)
				}
				prios[g.tag.Priority] = true
				mf := &mFile{name: name, tm: tm, size: size, seq: m.seq, kind: kind, young: young}
				g.everSeen[name] = mf
				m.seq++
				h := hfile{name: name, size: size, tm: tm, hash: fmt.Sprintf("h%d", mf.seq)}
				var file sts.Hashed
				switch kind {
				case kNormal:
					mf.left = [][2]int64{{0, size}}
					file = &h
				case kPlaceholder:
					g.sawRecov = true
					file = &rfile{hfile: h, prev: ""}
				case kRecovered:
					g.sawRecov = true
					// missing ranges: sorted, disjoint, possibly adjacent
					var left [][2]int64
					pos := int64(0)
					for pos < size && len(left) < 4 {
						gap := int64(t.IntRange("gap", 0, 3))
						beg := pos + gap
						if beg >= size {
							break
						}
						ln := int64(t.IntRange("len", 1, int(size-beg)))
						left = append(left, [2]int64{beg, beg + ln})
						pos = beg + ln
					}
					if len(left) == 0 {
						left = [][2]int64{{0, size}}
					}
					mf.left = left
					if t.Bool("hasPrev") {
						mf.prev = fmt.Sprintf("%s/p%d", gname, t.IntRange("prevId", 0, 3))
					}
					if len(left) >= 2 {
						t.Class("resumed-multi-range")
					}
					file = &rfile{hfile: h, prev: mf.prev, left: append([][2]int64{}, left...)}
				}
				// model: replacing a queued name starts over
				if old, ok := g.files[name]; ok {
					t.Class("name-requeued")
					if old.pending() && old.emittedSize() > 0 {
						t.Class("requeued-half-emitted")
					}
					// the chain is lost when the re-pushed file is the only
					// one left in the group's list (nothing after it)
					if old.pending() {
						others := 0
						for _, of := range g.files {
							if of != old {
								others++
							}
						}
						if others == 0 {
							g.lostChain = true
						}
					}
				} else if g.doneSet[name] {
					t.Class("completed-name-again")
				}
				if kind == kPlaceholder {
					g.phSet[name] = true
					// a placeholder is not pending; it only occupies a place
					delete(g.files, name)
					mfp := mf
					mfp.left = nil
					g.files[name] = mfp
				} else {
					g.files[name] = mf
				}
				if popped {
					pushAfterPop = true
				}
				t.Note("push %s kind=%d size=%d t=%v prev=%q left=%v", name, kind, size, tm.Sub(base), mf.prev, mf.left)
				batch = append(batch, file)
			}
			q.Push(batch)
			continue
		}
		// -------------------------------------------------------------- Pop
		ready := map[string]bool{}
		for _, gn := range m.order {
			g := m.groups[gn]
			if g.ready(g.tag.LastDelay) {
				ready[gn] = true
			}
		}
		lastStripped := ""
		if nGroups == 1 {
			// every Pop scans the only group and strips fully allocated
			// entries from the head of its list as long as they have a successor
			for _, g := range m.groups {
				var l []*mFile
				for _, f := range g.files {
					if f.pending() || (f.kind == kPlaceholder && !f.passed) {
						l = append(l, f)
					}
				}
				sort.Slice(l, func(i, j int) bool { return less(g.tag.Order, l[i], l[j]) })
				for len(l) >= 2 && l[0].kind == kPlaceholder {
					l[0].passed = true
					lastStripped = l[0].name
					l = l[1:]
				}
			}
		}
		c := q.Pop()
		popped = true
		if c == nil {
			t.Note("pop -> nil (ready=%v)", keys(ready))
			if p.property == "C12" && len(ready) > 0 {
				t.Violation("pop-nil-while-ready", "Pop returned nil although groups %v have a chunk ready", keys(ready))
			}
			if p.property != "C12" && len(ready) > 0 && !anyDelay(tags) {
				t.Violation("pop-nil-while-pending", "Pop returned nil although groups %v have pending files", keys(ready))
			}
			continue
		}
		off, ln := c.GetSlice()
		gname := grouper(c.GetName())
		g := m.groups[gname]
		t.Note("pop -> %s [%d,+%d) prev=%q send=%d", c.GetName(), off, ln, c.GetPrev(), c.GetSendSize())
		if g == nil {
			t.Violation("pop-unknown", "Pop returned %s which was never pushed", c.GetName())
			return
		}
		pops = append(pops, popRec{group: gname, ready: ready})
		mf := g.files[c.GetName()]
		if mf == nil || !mf.pending() {
			t.Violation("pop-not-pending", "Pop returned a chunk of %s which has nothing left to emit", c.GetName())
			return
		}

		// ---- C12: group choice
		if p.property == "C12" {
			if !ready[gname] {
				t.Violation("served-not-ready", "group %s served although its only remaining file is younger than the last-file delay", gname)
			}
			for rg := range ready {
				if m.groups[rg].tag.Priority > g.tag.Priority {
					t.Violation("priority-inversion", "group %s (prio %d) served while %s (prio %d) was ready",
						gname, g.tag.Priority, rg, m.groups[rg].tag.Priority)
				}
			}
			same := 0
			for rg := range ready {
				if m.groups[rg].tag.Priority == g.tag.Priority {
					same++
				}
			}
			if same >= 2 {
				sawEqualReady = true
			}
		}

		// ---- C10: file choice within the group
		exp := g.pendingSorted()[0]
		if p.property == "C10" && exp.name != c.GetName() {
			t.Violation("wrong-file-order", "group %s (order %q): emitted %s but %s comes first", gname, g.tag.Order, c.GetName(), exp.name)
		}

		// ---- C11: chunk geometry
		if ln <= 0 {
			t.Violation("empty-chunk", "empty chunk of %s at %d", c.GetName(), off)
		}
		if ln > g.tag.ChunkSize {
			t.Violation("chunk-too-large", "chunk of %s has %d bytes, limit %d", c.GetName(), ln, g.tag.ChunkSize)
		}
		// must continue the allocation: next un-emitted byte of "left"
		wantOff := nextOffset(mf)
		if off != wantOff {
			t.Violation("chunk-offset", "chunk of %s starts at %d, expected %d (left=%v emitted=%v)", c.GetName(), off, wantOff, mf.left, mf.emitted)
		}
		if !within(mf.left, off, off+ln) {
			t.Violation("chunk-outside", "chunk [%d,%d) of %s is not inside one of the ranges to send %v", off, off+ln, c.GetName(), mf.left)
		}
		if c.GetSendSize() != mf.sendSize() {
			t.Violation("send-size", "send size of %s reported %d, expected %d", c.GetName(), c.GetSendSize(), mf.sendSize())
		}
		if len(mf.emitted) > 0 || ln < mf.sendSize() {
			multiChunk = true
		}
		mf.emitted = append(mf.emitted, [2]int64{off, off + ln})

		// ---- C10: predecessor
		prev := c.GetPrev()
		if p.property == "C10" {
			switch {
			case prev == c.GetName():
				t.Violation("self-predecessor", "%s names itself as predecessor", c.GetName())
			case g.tag.Order == sts.OrderNone:
				if prev != "" {
					t.Violation("prev-on-unordered", "unordered tag: %s announces predecessor %q", c.GetName(), prev)
				}
			case mf.kind == kRecovered:
				want := mf.prev
				if want == mf.name {
					want = ""
				}
				if prev != want {
					t.Violation("resumed-prev-changed", "resumed file %s announces %q, it had announced %q before", c.GetName(), prev, want)
				}
			default:
				if prev != "" && !g.doneSet[prev] && !g.phSet[prev] {
					t.Violation("prev-not-completed", "%s announces %q which has neither been emitted completely nor queued as already sent", c.GetName(), prev)
				}
				if !g.sawRecov {
					want := ""
					if len(g.completed) > 0 {
						want = g.completed[len(g.completed)-1]
					}
					if want == c.GetName() {
						want = ""
					}
					if prev != want {
						if g.lostChain && prev == "" {
							if t.Violation("requeued-sole-head-loses-chain",
								"%s announces no predecessor although %q was completed most recently (the only queued file of the group was pushed again while pending)", c.GetName(), want) {
								g.lostChain = true
							}
						} else {
							t.Violation("prev-not-most-recent", "%s announces %q, most recently completed file of the group is %q", c.GetName(), prev, want)
						}
					}
				} else if lastStripped != "" && g.tag.Order != sts.OrderNone && prev != lastStripped && lastStripped != mf.name {
					t.Violation("prev-skips-file-queued-as-already-sent", "%s announces %q although %q, queued as already sent, was passed immediately before it: the chain skips it", c.GetName(), prev, lastStripped)
				} else if pf := g.everSeen[prev]; prev != "" && pf != nil && g.tag.Order != sts.OrderNone && nGroups == 1 {
					// after a restart: the chain continues through the files
					// queued as already sent; none of them may be skipped
					for _, x := range g.everSeen {
						if x.kind == kPlaceholder && !x.passed && x.name != prev && x.name != mf.name && less(g.tag.Order, pf, x) && less(g.tag.Order, x, mf) && g.files[x.name] == x {
							t.Violation("prev-skips-file-queued-as-already-sent", "%s announces %q although %q, queued as already sent, lies between them in the tag's order: the chain skips it", c.GetName(), prev, x.name)
						}
					}
				}
			}
		}
		// placeholders sorting before a file that has been popped are behind us
		for _, x := range g.everSeen {
			if x.kind == kPlaceholder && less(g.tag.Order, x, mf) {
				x.passed = true
			}
		}
		if !mf.pending() {
			g.completed = append(g.completed, mf.name)
			g.doneSet[mf.name] = true
			delete(g.files, mf.name)
			// placeholders that sort before the completed file are passed
			for n, f := range g.files {
				if f.kind == kPlaceholder && less(g.tag.Order, f, mf) {
					delete(g.files, n)
				}
			}
			// a fresh completion re-establishes the chain
			g.lostChain = false
		}
	}

	// ---- C12: bounded bypass over the recorded pops
	if p.property == "C12" {
		last := map[string]int{}
		for j, pr := range pops {
			if i, ok := last[pr.group]; ok {
				G := m.groups[pr.group]
				gReadyAll := true
				for k := i + 1; k < j; k++ {
					if !pops[k].ready[pr.group] {
						gReadyAll = false
					}
				}
				for _, hn := range m.order {
					H := m.groups[hn]
					if hn == pr.group || H.tag.Priority != G.tag.Priority {
						continue
					}
					// H must have been ready from the moment G was served at
					// pop i (a group that turns up later is queued behind G)
					readyAll := true
					for k := i; k <= j; k++ {
						if !pops[k].ready[hn] {
							readyAll = false
						}
					}
					served := 0
					for k := i + 1; k < j; k++ {
						if pops[k].group == hn {
							served++
						}
					}
					if readyAll && served == 0 {
						t.Violation("starved", "group %s was ready at every pop between two consecutive chunks of %s (pops %d..%d) but was not served", hn, pr.group, i, j)
					}
					if gReadyAll && served > 1 {
						t.Violation("served-twice", "group %s was served %d times between two consecutive chunks of %s although %s was ready throughout", hn, served, pr.group, pr.group)
					}
				}
			}
			last[pr.group] = j
		}
		if sawEqualReady && len(prios) >= 2 {
			t.NonTrivial()
		}
		if sawEqualReady {
			t.Class("equal-priority-contention")
		}
		if len(prios) >= 2 {
			t.Class("multi-priority")
		}
	} else {
		if pushAfterPop && multiChunk {
			t.NonTrivial()
		}
		if pushAfterPop {
			t.Class("push-after-pop")
		}
		if multiChunk {
			t.Class("multi-chunk-file")
		}
	}
}

func anyDelay(tags []*queue.Tag) bool {
	for _, t := range tags {
		if t.LastDelay > 0 {
			return true
		}
	}
	return false
}

func keys(m map[string]bool) []string {
	var k []string
	for s := range m {
		k = append(k, s)
	}
	sort.Strings(k)
	return k
}

// nextOffset: first byte of "left" not yet covered by "emitted" (emission is
// in order, so that is left minus the emitted prefix).
func nextOffset(f *mFile) int64 {
	done := f.emittedSize()
	for _, r := range f.left {
		n := r[1] - r[0]
		if done < n {
			return r[0] + done
		}
		done -= n
	}
	return -1
}

func within(left [][2]int64, b, e int64) bool {
	for _, r := range left {
		if b >= r[0] && e <= r[1] {
			return true
		}
	}
	return false
}

func TestC10(t *testing.T) {
	vt.Check(t, "C10", func(t *vt.T) {
		runQueue(t, profile{property: "C10", recovered: t.Bool("withRecovered"), dupNames: true,
			maxGroups: 3, maxTags: 3, maxOps: 60, priorities: 2})
	})
}

func TestC11Queue(t *testing.T) {
	vt.Check(t, "C11", func(t *vt.T) {
		runQueue(t, profile{property: "C11", recovered: true, dupNames: t.Bool("dupNames"),
			maxGroups: 2, maxTags: 2, maxOps: 50, priorities: 2})
	})
}

func TestC12(t *testing.T) {
	vt.Check(t, "C12", func(t *vt.T) {
		runQueue(t, profile{property: "C12", recovered: false, dupNames: false, lastDelay: true,
			maxGroups: 6, maxTags: 4, maxOps: 80, priorities: 3})
	})
}

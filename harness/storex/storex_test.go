// Package storex checks the scan filter of store.Local against a reference
// eligibility predicate (C17, directory-tree part).
package storex

import (
	"fmt"
	"os"
	"path/filepath"
	"regexp"
	"sort"
	"strings"
	"testing"
	"time"

	"github.com/arm-doe/sts"
	"github.com/arm-doe/sts/log"
	"github.com/arm-doe/sts/store"
	"verif/harness/vt"
)

func TestMain(m *testing.M) {
	log.InitExternal(&vt.QuietLogger{})
	os.Exit(m.Run())
}

type node struct {
	rel    string
	dir    bool
	size   int
	old    bool   // older than the minimum age
	future bool   // modification time after the start of the scan
	link   string // symlink target (absolute), "" if none
	linkTo *node
}

var dirNames = []string{"a", "b", "data", ".hid", "skip", "keep", "x.d"}
var fileNames = []string{"f1.dat", "f2.raw", "f3.dat.lck", ".hidden", "g.tmp", ".disabled", "h", "i.dat"}

var includeSets = [][]string{nil, {`\.dat$`}, {`^keep/`, `\.raw$`}, {`^a/`}}
var ignoreSets = [][]string{nil, {`\.tmp$`}, {`^skip`}, {`^data/b`, `\.raw$`}, {`^x\.d$`}}

var caseNo int

func propScan(t *vt.T) {
	caseNo++
	base := os.Getenv("VT_TMP")
	root, err := os.MkdirTemp(base, "storex")
	if err != nil {
		t.Skip(err.Error())
	}
	defer os.RemoveAll(root)
	outside, _ := os.MkdirTemp(base, "storex-outside")
	defer os.RemoveAll(outside)
	out := filepath.Join(root, "out")
	os.MkdirAll(out, 0755)
	minAge := []time.Duration{0, 2 * time.Hour}[t.Pick("minAge", 2)]
	includeHidden := t.Weighted("includeHidden", 3, 1) == 1
	follow := t.Weighted("followSymlinks", 3, 1) == 1
	inc := includeSets[t.Pick("include", len(includeSets))]
	ign := ignoreSets[t.Pick("ignore", len(ignoreSets))]
	nonHTTP := ""
	if t.Weighted("nonHTTPTag", 3, 1) == 1 {
		nonHTTP = `^b/`
	}
	disabledAtRoot := t.Weighted("disabledAtRoot", 9, 1) == 1
	now := time.Now()
	stamp := func(p string, old bool) {
		tm := now.Add(-5 * time.Minute)
		if old {
			tm = now.Add(-3 * time.Hour)
		}
		os.Chtimes(p, tm, tm)
	}
	// ---- build the tree
	var nodes []*node
	dirs := []string{""}
	nd := t.IntRange("nDirs", 0, 5)
	for i := 0; i < nd; i++ {
		parent := dirs[t.Pick("parent", len(dirs))]
		if strings.Count(parent, "/") >= 3 {
			parent = ""
		}
		rel := filepath.Join(parent, dirNames[t.Pick("dirName", len(dirNames))])
		if err := os.Mkdir(filepath.Join(out, rel), 0755); err == nil {
			dirs = append(dirs, rel)
			nodes = append(nodes, &node{rel: rel, dir: true})
		}
	}
	nf := t.IntRange("nFiles", 1, 10)
	for i := 0; i < nf; i++ {
		parent := dirs[t.Pick("fileDir", len(dirs))]
		name := fileNames[t.Pick("fileName", len(fileNames))]
		if name == ".disabled" && parent == "" {
			name = "h"
		}
		rel := filepath.Join(parent, name)
		if _, err := os.Lstat(filepath.Join(out, rel)); err == nil {
			continue
		}
		n := &node{rel: rel, size: []int{0, 1, 5, 100}[t.Weighted("size", 1, 3, 3, 1)], old: t.Weighted("old", 1, 2) == 1}
		kind := t.Weighted("kind", 8, 1, 1)
		switch kind {
		case 0:
			os.WriteFile(filepath.Join(out, rel), make([]byte, n.size), 0644)
			stamp(filepath.Join(out, rel), n.old)
			if t.Weighted("futureTime", 7, 1) == 1 {
				// modified after the scan starts (a writer at work, a clock ahead): its age is
				// negative, i.e. below every minimum age including zero
				tm := now.Add(time.Hour)
				os.Chtimes(filepath.Join(out, rel), tm, tm)
				n.future = true
				t.Class("file-time-after-scan-start")
			}
		case 1: // symlink to a file outside the tree (absolute target)
			tgt := filepath.Join(outside, fmt.Sprintf("t%d", i))
			os.WriteFile(tgt, make([]byte, n.size), 0644)
			stamp(tgt, n.old)
			os.Symlink(tgt, filepath.Join(out, rel))
			n.link = tgt
			// the statement does not say whose age counts for a link; the
			// check follows the documented modes: without link following
			// the link itself (just created) is what lies in the directory,
			// with link following the tree is seen through the links
			if !follow {
				n.old = false
			}
			t.Class("symlink-to-file")
		case 2: // symlink to a directory outside
			tgt := filepath.Join(outside, fmt.Sprintf("d%d", i))
			os.MkdirAll(tgt, 0755)
			os.WriteFile(filepath.Join(tgt, "inner.dat"), []byte("x"), 0644)
			stamp(filepath.Join(tgt, "inner.dat"), true)
			os.Symlink(tgt, filepath.Join(out, rel))
			n.link = tgt
			n.dir = true
			t.Class("symlink-to-dir")
		}
		nodes = append(nodes, n)
	}
	if disabledAtRoot {
		os.WriteFile(filepath.Join(out, ".disabled"), nil, 0644)
		t.Class("disabled-at-root")
	}
	// ---- scan
	st := &store.Local{Root: out, MinAge: minAge, IncludeHidden: includeHidden, FollowSymlinks: follow}
	for _, p := range inc {
		st.Include = append(st.Include, regexp.MustCompile(p))
	}
	for _, p := range ign {
		st.Ignore = append(st.Ignore, regexp.MustCompile(p))
	}
	if nonHTTP != "" {
		st.Ignore = append(st.Ignore, regexp.MustCompile(nonHTTP)) // as main/client.go does for non-HTTP tags
	}
	st.AddStandardIgnore()
	found, _, err := st.Scan(func(f sts.File) bool { return f.GetSize() > 0 })
	if err != nil {
		t.Violation("scan-error", "Scan failed: %v", err)
	}
	got := map[string]bool{}
	for _, f := range found {
		got[f.GetName()] = true
	}
	// ---- reference predicate
	matchAny := func(ps []string, s string) bool {
		for _, p := range ps {
			if regexp.MustCompile(p).MatchString(s) {
				return true
			}
		}
		return false
	}
	allIgnore := append([]string{`\.lck$`, `(?:^|/)\.disabled$`}, ign...) // the standard ignores are ignore patterns too
	if nonHTTP != "" {
		allIgnore = append(allIgnore, nonHTTP)
	}
	want := map[string]bool{}
	decidedBy := map[string]bool{}
	for _, n := range nodes {
		if n.dir && n.link == "" {
			continue
		}
		if n.dir && n.link != "" {
			if follow {
				// followed directory links: their files count as lying under the tree
				inner := filepath.Join(n.rel, "inner.dat")
				n2 := &node{rel: inner, size: 1, old: true}
				if eligible(n2, minAge, includeHidden, inc, allIgnore, matchAny, decidedBy) && !disabledAtRoot && !hiddenOrIgnoredDir(n.rel, includeHidden, allIgnore, matchAny) {
					want[inner] = true
				}
			}
			continue
		}
		if disabledAtRoot {
			continue
		}
		if eligible(n, minAge, includeHidden, inc, allIgnore, matchAny, decidedBy) {
			want[n.rel] = true
		}
	}
	var diff []string
	for k := range want {
		if !got[k] {
			diff = append(diff, "missing:"+k)
		}
	}
	for k := range got {
		if !want[k] {
			diff = append(diff, "unexpected:"+k)
		}
	}
	sort.Strings(diff)
	var all []string
	for _, n := range nodes {
		all = append(all, fmt.Sprintf("%s(dir=%v size=%d old=%v link=%v)", n.rel, n.dir, n.size, n.old, n.link != ""))
	}
	t.Note("minAge=%v hidden=%v follow=%v include=%v ignore=%v nonHTTP=%q disabled=%v", minAge, includeHidden, follow, inc, ign, nonHTTP, disabledAtRoot)
	t.Note("tree: %v", all)
	t.Note("scan: %v", keys(got))
	if len(diff) > 0 {
		key := "scan-set-differs"
		for _, d := range diff {
			if strings.HasPrefix(d, "unexpected:") {
				key = "ineligible-file-queued"
			}
		}
		t.Violation(key, "scan result differs from the eligibility rule: %v\nscan: %v\nexpected: %v", diff, keys(got), keys(want))
	}
	if len(want) > 0 && len(want) < countFiles(nodes) && (decidedBy["pattern"] || decidedBy["age"]) {
		t.NonTrivial()
	}
}

func countFiles(ns []*node) (c int) {
	for _, n := range ns {
		if !n.dir {
			c++
		}
	}
	return
}

func hiddenOrIgnoredDir(rel string, includeHidden bool, ignore []string, matchAny func([]string, string) bool) bool {
	parts := strings.Split(rel, "/")
	for i := range parts {
		anc := strings.Join(parts[:i+1], "/")
		if !includeHidden && strings.HasPrefix(parts[i], ".") {
			return true
		}
		if matchAny(ignore, anc) {
			return true
		}
	}
	return false
}

func eligible(n *node, minAge time.Duration, includeHidden bool, inc, ignore []string, matchAny func([]string, string) bool, decided map[string]bool) bool {
	if n.size == 0 {
		return false
	}
	parts := strings.Split(n.rel, "/")
	// ancestors
	for i := 0; i < len(parts)-1; i++ {
		anc := strings.Join(parts[:i+1], "/")
		if !includeHidden && strings.HasPrefix(parts[i], ".") {
			return false
		}
		if matchAny(ignore, anc) {
			decided["pattern"] = true
			return false
		}
	}
	leaf := parts[len(parts)-1]
	if !includeHidden && strings.HasPrefix(leaf, ".") {
		return false
	}
	if strings.HasSuffix(leaf, ".lck") || leaf == ".disabled" {
		return false
	}
	if matchAny(ignore, n.rel) {
		decided["pattern"] = true
		return false
	}
	if len(inc) > 0 && !matchAny(inc, n.rel) {
		decided["pattern"] = true
		return false
	}
	if n.future || (minAge > 0 && !n.old) {
		decided["age"] = true
		return false
	}
	return true
}

func keys(m map[string]bool) []string {
	var k []string
	for s := range m {
		k = append(k, s)
	}
	sort.Strings(k)
	return k
}

func TestC17Scan(t *testing.T) { vt.Check(t, "C17", propScan) }

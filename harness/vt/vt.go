// Package vt is the shared core of the verification harness: a recorded
// choice source (rapid-backed or replay-backed), violation reporting with
// known-finding classification, and per-process coverage statistics.
package vt

import (
	"encoding/hex"
	"encoding/json"
	"fmt"
	"hash/fnv"
	"os"
	"sort"
	"strconv"
	"strings"
	"sync"
	"testing"

	"pgregory.net/rapid"
)

// Draw is one recorded random choice.
type Draw struct {
	L string `json:"l"`           // label
	K string `json:"k"`           // kind: i (int), b (bytes, hex), s (string)
	V string `json:"v"`           // value
	R string `json:"r,omitempty"` // range, informational
}

// Replay is the on-disk form of one case.
type Replay struct {
	Property string   `json:"property"`
	Check    string   `json:"check"` // go test function that executes it
	Seed     uint64   `json:"seed"`
	Message  string   `json:"message"`
	Key      string   `json:"key,omitempty"`
	Draws    []Draw   `json:"draws"`
	Notes    []string `json:"notes,omitempty"`
}

type stopCase struct{}

// T is handed to every property function. All randomness goes through it.
type T struct {
	rt        *rapid.T
	replay    []Draw
	pos       int
	draws     []Draw
	notes     []string
	classes   map[string]bool
	nontriv   bool
	failed    bool
	failMsg   string
	failKey   string
	knownHit  map[string]int
	st        *Stats
	exhausted bool
	quiet     bool // shrinking run: do not write the failure file
	skipped   int  // replay: recorded draws passed over
	missed    int  // replay: draws asked for that were not recorded
}

func (t *T) record(d Draw) { t.draws = append(t.draws, d) }

func (t *T) next(label, kind string) (string, bool) {
	// Tolerant replay: a saved case stays executable when the generator has
	// gained or lost a draw since. Look a few entries ahead for the label asked
	// for; if it is not there, the draw takes its simplest value and nothing
	// is consumed.
	for k := 0; k < 12 && t.pos+k < len(t.replay); k++ {
		d := t.replay[t.pos+k]
		if d.L == label && d.K == kind {
			t.skipped += k
			t.pos += k + 1
			return d.V, true
		}
	}
	t.missed++
	return "", false
}

// IntRange draws an int in [lo, hi].
func (t *T) IntRange(label string, lo, hi int) int {
	if hi < lo {
		hi = lo
	}
	var v int
	if t.rt != nil {
		v = rapid.IntRange(lo, hi).Draw(t.rt, label)
	} else {
		s, ok := t.next(label, "i")
		if ok {
			v, _ = strconv.Atoi(s)
		}
		if v < lo {
			v = lo
		}
		if v > hi {
			v = hi
		}
	}
	t.record(Draw{L: label, K: "i", V: strconv.Itoa(v), R: fmt.Sprintf("%d..%d", lo, hi)})
	return v
}

// Int64Range draws an int64 in [lo, hi].
func (t *T) Int64Range(label string, lo, hi int64) int64 {
	if hi < lo {
		hi = lo
	}
	var v int64
	if t.rt != nil {
		v = rapid.Int64Range(lo, hi).Draw(t.rt, label)
	} else {
		s, ok := t.next(label, "i")
		if ok {
			v, _ = strconv.ParseInt(s, 10, 64)
		}
		if v < lo {
			v = lo
		}
		if v > hi {
			v = hi
		}
	}
	t.record(Draw{L: label, K: "i", V: strconv.FormatInt(v, 10), R: fmt.Sprintf("%d..%d", lo, hi)})
	return v
}

// Bool draws a boolean (false shrinks first).
func (t *T) Bool(label string) bool { return t.IntRange(label, 0, 1) == 1 }

// Pick draws an index in [0, n).
func (t *T) Pick(label string, n int) int { return t.IntRange(label, 0, n-1) }

// OneOf draws one of the given strings (earlier ones are "simpler").
func (t *T) OneOf(label string, opts ...string) string { return opts[t.Pick(label, len(opts))] }

// Weighted draws an index with the given integer weights.
func (t *T) Weighted(label string, weights ...int) int {
	total := 0
	for _, w := range weights {
		total += w
	}
	x := t.IntRange(label, 0, total-1)
	for i, w := range weights {
		if x < w {
			return i
		}
		x -= w
	}
	return len(weights) - 1
}

// Bytes draws a byte slice with length in [minLen, maxLen].
func (t *T) Bytes(label string, minLen, maxLen int) []byte {
	var v []byte
	if t.rt != nil {
		v = rapid.SliceOfN(rapid.Byte(), minLen, maxLen).Draw(t.rt, label)
	} else {
		s, ok := t.next(label, "b")
		if ok {
			v, _ = hex.DecodeString(s)
		}
		for len(v) < minLen {
			v = append(v, 0)
		}
		if len(v) > maxLen {
			v = v[:maxLen]
		}
	}
	t.record(Draw{L: label, K: "b", V: hex.EncodeToString(v)})
	return v
}

// StringOf draws a string of [minLen,maxLen] runes taken from alphabet.
func (t *T) StringOf(label string, alphabet []rune, minLen, maxLen int) string {
	var v string
	if t.rt != nil {
		rs := rapid.SliceOfN(rapid.SampledFrom(alphabet), minLen, maxLen).Draw(t.rt, label)
		v = string(rs)
	} else {
		s, ok := t.next(label, "s")
		if ok {
			v = s
		}
		for len([]rune(v)) < minLen {
			v += string(alphabet[0])
		}
	}
	t.record(Draw{L: label, K: "s", V: v})
	return v
}

// Perm draws a permutation of n elements (identity shrinks first).
func (t *T) Perm(label string, n int) []int {
	p := make([]int, n)
	for i := range p {
		p[i] = i
	}
	for i := 0; i < n-1; i++ {
		j := i + t.IntRange(label, 0, n-1-i)
		p[i], p[j] = p[j], p[i]
	}
	return p
}

// Note appends a human-readable line to the case's trace.
func (t *T) Note(format string, a ...any) {
	if len(t.notes) < 400 {
		t.notes = append(t.notes, fmt.Sprintf(format, a...))
	}
}

// Class labels the case for the coverage histogram.
func (t *T) Class(name string) { t.classes[name] = true }

// HasClass reports whether the case was labelled.
func (t *T) HasClass(name string) bool { return t.classes[name] }

// Count adds to a free-form per-process counter reported in the evidence.
func (t *T) Count(name string, n int) {
	if !t.quiet {
		t.st.Count(name, n)
	}
}

// NonTrivial marks the case as non-trivial by the property's stated rule.
func (t *T) NonTrivial() { t.nontriv = true }

// Replaying reports whether this is a direct replay (no rapid).
func (t *T) Replaying() bool { return t.rt == nil }

// Violation reports that the property is broken. key names the specific
// failing shape/call site; if it is listed in known_findings.json as a known
// finding, the hit is counted and the function returns true so that the caller
// can abandon the case quietly (the search continues). Otherwise it does not
// return.
func (t *T) Violation(key, format string, a ...any) bool {
	msg := fmt.Sprintf(format, a...)
	if IsKnown(t.st.Property, key) {
		t.knownHit[key]++
		return true
	}
	t.failed = true
	t.failKey = key
	t.failMsg = msg
	if !t.quiet {
		t.saveFailure()
	}
	if t.rt != nil {
		t.rt.Fatalf("[%s] %s", key, msg)
	}
	panic(stopCase{})
}

// Skip abandons the case without counting it (use sparingly).
func (t *T) Skip(why string) {
	if t.rt != nil {
		t.rt.Skip(why)
	}
	panic(stopCase{})
}

func (t *T) saveFailure() {
	path := os.Getenv("VT_FAIL")
	if path == "" {
		return
	}
	r := Replay{Property: t.st.Property, Check: t.st.Check, Seed: t.st.Seed,
		Message: t.failMsg, Key: t.failKey, Draws: t.draws, Notes: t.notes}
	b, _ := json.MarshalIndent(r, "", " ")
	_ = os.WriteFile(path+".tmp", b, 0644)
	_ = os.Rename(path+".tmp", path)
}

func (t *T) signature() uint64 {
	h := fnv.New64a()
	for _, d := range t.draws {
		h.Write([]byte(d.K))
		h.Write([]byte(d.V))
		h.Write([]byte{0})
	}
	return h.Sum64()
}

// Stats accumulates what a process generated.
type Stats struct {
	mu          sync.Mutex
	Property    string            `json:"property"`
	Check       string            `json:"check"`
	Seed        uint64            `json:"seed"`
	Evaluations int               `json:"evaluations"`
	NonTrivial  int               `json:"nontrivial"`
	Classes     map[string]int    `json:"classes"`
	Sigs        []string          `json:"sigs"`
	Samples     []json.RawMessage `json:"samples"`
	KnownHits   map[string]int    `json:"known_hits"`
	Extra       map[string]int    `json:"extra"`
	Failed      bool              `json:"failed"`
	FailMsg     string            `json:"fail_msg,omitempty"`
	sigset      map[uint64]bool
}

// NewStats creates the accumulator for one check function.
func NewStats(property, check string) *Stats {
	return &Stats{Property: property, Check: check, Classes: map[string]int{},
		KnownHits: map[string]int{}, Extra: map[string]int{}, sigset: map[uint64]bool{}}
}

// Count adds n to a free-form counter.
func (s *Stats) Count(name string, n int) {
	s.mu.Lock()
	s.Extra[name] += n
	s.mu.Unlock()
}

func (s *Stats) absorb(t *T) {
	s.mu.Lock()
	defer s.mu.Unlock()
	s.Evaluations++
	for c := range t.classes {
		s.Classes[c]++
	}
	for k, n := range t.knownHit {
		s.KnownHits[k] += n
	}
	if t.nontriv {
		s.NonTrivial++
		sig := t.signature()
		if !s.sigset[sig] {
			s.sigset[sig] = true
			if len(s.Samples) < 4 {
				cls := make([]string, 0, len(t.classes))
				for c := range t.classes {
					cls = append(cls, c)
				}
				sort.Strings(cls)
				notes := t.notes
				if len(notes) > 60 {
					notes = append(append([]string{}, notes[:60]...), "...")
				}
				b, _ := json.Marshal(map[string]any{"classes": cls, "trace": notes})
				s.Samples = append(s.Samples, b)
			}
		}
	}
}

// Write stores the shard result where the driver asked for it.
func (s *Stats) Write() {
	path := os.Getenv("VT_OUT")
	if path == "" {
		return
	}
	s.mu.Lock()
	defer s.mu.Unlock()
	s.Sigs = s.Sigs[:0]
	for k := range s.sigset {
		s.Sigs = append(s.Sigs, strconv.FormatUint(k, 16))
	}
	sort.Strings(s.Sigs)
	b, _ := json.Marshal(s)
	_ = os.WriteFile(path+".tmp", b, 0644)
	_ = os.Rename(path+".tmp", path)
}

// run executes prop once under t, converting stopCase panics.
func run(t *T, prop func(*T)) {
	defer func() {
		if r := recover(); r != nil {
			if _, ok := r.(stopCase); ok {
				return
			}
			panic(r)
		}
	}()
	prop(t)
}

func newT(st *Stats) *T {
	return &T{classes: map[string]bool{}, knownHit: map[string]int{}, st: st}
}

// Seed returns the rapid seed of this process (from -rapid.seed), for records.
func seedFromFlags() uint64 {
	for _, a := range os.Args {
		if strings.HasPrefix(a, "-rapid.seed=") {
			v, _ := strconv.ParseUint(strings.TrimPrefix(a, "-rapid.seed="), 10, 64)
			return v
		}
	}
	return 0
}

// Check runs prop under rapid (or replays VT_REPLAY directly) and writes the
// shard statistics. It is the body of every non-bubbled check function.
func Check(tt *testing.T, property string, prop func(*T)) {
	st := NewStats(property, tt.Name())
	st.Seed = seedFromFlags()
	defer st.Write()
	if path := os.Getenv("VT_REPLAY"); path != "" {
		ok, msg := ReplayFile(st, path, prop)
		if !ok {
			st.Failed = true
			st.FailMsg = msg
			tt.Fatalf("replay failed: %s", msg)
		}
		return
	}
	seenFail := false
	rapid.Check(&tbWrap{T: tt, st: st}, func(rt *rapid.T) {
		t := newT(st)
		t.rt = rt
		defer func() {
			if t.failed {
				seenFail = true
			}
			if !seenFail {
				st.absorb(t)
			}
		}()
		run(t, prop)
	})
}

// tbWrap lets us note that rapid declared failure.
type tbWrap struct {
	*testing.T
	st *Stats
}

func (w *tbWrap) Fatalf(format string, args ...any) {
	w.st.Failed = true
	w.st.FailMsg = fmt.Sprintf(format, args...)
	w.st.Write()
	w.T.Fatalf(format, args...)
}
func (w *tbWrap) Errorf(format string, args ...any) {
	w.st.Failed = true
	w.st.FailMsg = fmt.Sprintf(format, args...)
	w.T.Errorf(format, args...)
}

// ReplayFile executes one saved case directly, bypassing rapid.
func ReplayFile(st *Stats, path string, prop func(*T)) (ok bool, msg string) {
	b, err := os.ReadFile(path)
	if err != nil {
		return false, "cannot read replay: " + err.Error()
	}
	var r Replay
	if err := json.Unmarshal(b, &r); err != nil {
		return false, "cannot parse replay: " + err.Error()
	}
	t := newT(st)
	t.replay = r.Draws
	run(t, prop)
	st.absorb(t)
	if t.failed {
		return false, fmt.Sprintf("[%s] %s", t.failKey, t.failMsg)
	}
	if n := len(t.replay); n > 0 && (t.skipped+(n-t.pos))*4 > n {
		// the generator changed since the case was saved: the replay did not
		// execute the recorded case
		st.Extra["stale_replay"] = 1
		fmt.Fprintln(os.Stderr, "STALE-REPLAY: recorded draws do not match the current generator:", path)
	}
	return true, ""
}

// ---------------------------------------------------------------------------
// known findings

type finding struct {
	Property string `json:"property"`
	Key      string `json:"key"`
	Status   string `json:"status"` // "known" or "fixed"
}

var (
	knownOnce sync.Once
	knownSet  map[string]bool
)

// IsKnown reports whether (property,key) is listed as a known (unfixed) finding.
func IsKnown(property, key string) bool {
	knownOnce.Do(func() {
		knownSet = map[string]bool{}
		path := os.Getenv("VT_KNOWN")
		if path == "" {
			return
		}
		b, err := os.ReadFile(path)
		if err != nil {
			return
		}
		var doc struct {
			Findings []finding `json:"findings"`
		}
		if json.Unmarshal(b, &doc) != nil {
			return
		}
		for _, f := range doc.Findings {
			if f.Status == "known" {
				knownSet[f.Property+"/"+f.Key] = true
			}
		}
	})
	return knownSet[property+"/"+key]
}

package vt

import (
	"flag"
	"fmt"
	"os"
	"runtime/pprof"
	"strconv"
	"strings"
	"sync"
	"sync/atomic"
	"syscall"
	"testing"
	"testing/synctest"
	"time"

	"pgregory.net/rapid"
)

// Base is the simulated time at which every bubbled process starts its cases.
var Base = time.Date(2030, 1, 1, 0, 0, 0, 0, time.UTC)

type bubbleStop struct{}

// progress counts started cases and shrink runs (read by the real-time watchdog).
var progress atomic.Int64

// bubbleTB is the rapid.TB used inside a synctest bubble: *testing.T cannot be
// failed from inside a bubble that is never left.
type bubbleTB struct {
	name   string
	failed bool
	msgs   []string
}

func (b *bubbleTB) Helper()      {}
func (b *bubbleTB) Name() string { return b.name }
func (b *bubbleTB) Logf(format string, args ...any) {
	if os.Getenv("VT_VERBOSE") != "" {
		fmt.Fprintf(os.Stderr, format+"\n", args...)
	}
}
func (b *bubbleTB) Log(args ...any)                  { b.Logf("%s", fmt.Sprint(args...)) }
func (b *bubbleTB) Skipf(format string, args ...any) { panic(bubbleStop{}) }
func (b *bubbleTB) Skip(args ...any)                 { panic(bubbleStop{}) }
func (b *bubbleTB) SkipNow()                         { panic(bubbleStop{}) }
func (b *bubbleTB) Errorf(format string, args ...any) {
	b.failed = true
	b.msgs = append(b.msgs, fmt.Sprintf(format, args...))
}
func (b *bubbleTB) Error(args ...any)                 { b.Errorf("%s", fmt.Sprint(args...)) }
func (b *bubbleTB) Fatalf(format string, args ...any) { b.Errorf(format, args...); panic(bubbleStop{}) }
func (b *bubbleTB) Fatal(args ...any)                 { b.Fatalf("%s", fmt.Sprint(args...)) }
func (b *bubbleTB) FailNow()                          { b.failed = true; panic(bubbleStop{}) }
func (b *bubbleTB) Fail()                             { b.failed = true }
func (b *bubbleTB) Failed() bool                      { return b.failed }

func envInt(name string, def int) int {
	if v := os.Getenv(name); v != "" {
		if n, err := strconv.Atoi(v); err == nil {
			return n
		}
	}
	return def
}

// CheckBubble runs all cases of one process inside a single synctest bubble
// (fake clock starting at Base) and leaves the process through syscall.Exit:
// the code under test starts goroutines and re-arming timers that cannot be
// stopped through its API, so the bubble can never be left normally.
//
// rapid.Check is called once per case with a fresh seed: rapid gives a
// non-*testing.T TB a 24 h deadline, measured on the (fake) clock, which a few
// long-sleeping cases would otherwise use up.
func CheckBubble(tt *testing.T, property string, prop func(*T)) {
	cases := envInt("VT_CASES", 50)
	for _, a := range os.Args {
		if strings.HasPrefix(a, "-rapid.checks=") {
			cases, _ = strconv.Atoi(strings.TrimPrefix(a, "-rapid.checks="))
		}
	}
	seed := seedFromFlags()
	if seed == 0 {
		seed = 1
	}
	name := tt.Name()
	if pf := os.Getenv("VT_CPUPROF"); pf != "" {
		if f, err := os.Create(pf); err == nil {
			pprof.StartCPUProfile(f)
		}
	}
	// Watchdog on the real clock (started outside the bubble): inside a bubble a goroutine that
	// blocks non-durably for ever (a sync.WaitGroup.Wait that synctest does not recognise, a
	// mutex held by a parked goroutine) stops simulated time and with it every case. Such a
	// wedge is an artefact of the harness world, not a verdict: dump the stacks and leave with
	// exit code 3; the driver runs the shard again.
	limit := time.Duration(envInt("VT_WATCHDOG", 300)) * time.Second
	go func() {
		last, since := progress.Load(), time.Now()
		for {
			time.Sleep(5 * time.Second)
			if cur := progress.Load(); cur != last {
				last, since = cur, time.Now()
				continue
			}
			if time.Since(since) > limit {
				fmt.Printf("WEDGED: no progress for %v (case %d of %s)\n", limit, last, name)
				if out := os.Getenv("VT_OUT"); out != "" {
					if f, err := os.Create(out + ".wedged.txt"); err == nil {
						pprof.Lookup("goroutine").WriteTo(f, 1)
						f.Close()
					}
				}
				syscall.Exit(3)
			}
		}
	}()
	synctest.Test(tt, func(tt *testing.T) {
		time.Sleep(time.Until(Base))
		st := NewStats(property, name)
		st.Seed = seed
		code := 0
		if path := os.Getenv("VT_REPLAY"); path != "" {
			ok, msg := ReplayFile(st, path, prop)
			if !ok {
				st.Failed = true
				st.FailMsg = msg
				fmt.Println("replay failed:", msg)
				code = 1
			}
		} else {
			_ = flag.Set("rapid.checks", "1")
			_ = flag.Set("rapid.shrinktime", "1ns")
			seenFail := false
			var firstFail *T
			for i := 0; i < cases && !seenFail; i++ {
				progress.Add(1)
				if os.Getenv("VT_TEST_WEDGE") != "" && i == 1 {
					var mu sync.Mutex // self-test of the watchdog: block non-durably for ever
					mu.Lock()
					mu.Lock()
				}
				_ = flag.Set("rapid.seed", strconv.FormatUint(seed+uint64(i)*7919, 10))
				tb := &bubbleTB{name: name}
				func() {
					defer func() {
						if r := recover(); r != nil {
							if _, ok := r.(bubbleStop); !ok {
								panic(r)
							}
						}
					}()
					rapid.Check(tb, func(rt *rapid.T) {
						t := newT(st)
						t.rt = rt
						defer func() {
							if t.failed {
								seenFail = true
								if firstFail == nil {
									firstFail = t
								}
							}
							if !seenFail {
								st.absorb(t)
							}
						}()
						run(t, prop)
					})
				}()
				if tb.failed {
					seenFail = true
					st.Failed = true
					st.FailMsg = strings.Join(tb.msgs, "\n")
					if len(st.FailMsg) > 4000 {
						st.FailMsg = st.FailMsg[:4000]
					}
					if firstFail != nil {
						// minimise with our own replay-based shrinker
						best := shrinkDraws(st, firstFail.draws, firstFail.failKey, prop)
						final := newT(st)
						final.replay = best
						run(final, prop) // writes the failure file of the minimal case
						if final.failed {
							st.FailMsg = "[" + final.failKey + "] " + final.failMsg
						} else {
							firstFail.saveFailure()
							st.FailMsg = "[" + firstFail.failKey + "] " + firstFail.failMsg + " (schedule dependent: the minimised case did not fail again)"
						}
					}
					fmt.Println(st.FailMsg)
					code = 1
				}
			}
		}
		st.Write()
		pprof.StopCPUProfile()
		os.Stdout.Sync()
		os.Stderr.Sync()
		syscall.Exit(code)
	})
}

package vt

import (
	"os"
	"strconv"
	"strings"
)

// runDraws executes prop once with the given recorded choices.
func runDraws(st *Stats, draws []Draw, prop func(*T)) *T {
	t := newT(st)
	t.replay = draws
	t.quiet = true
	run(t, prop)
	return t
}

// shrinkDraws minimises a failing choice sequence by deleting blocks of draws
// and lowering integer values, re-executing prop directly (no rapid: inside a
// synctest bubble rapid's shrink deadline is measured on the fake clock and is
// used up by the first case that sleeps). A candidate is kept only if it fails
// with the same key. Bounded by a number of executions, never by time.
func shrinkDraws(st *Stats, draws []Draw, key string, prop func(*T)) []Draw {
	budget := envInt("VT_SHRINK_RUNS", 1500)
	runs := 0
	fails := func(c []Draw) ([]Draw, bool) {
		if runs >= budget {
			return nil, false
		}
		runs++
		progress.Add(1)
		t := runDraws(st, c, prop)
		if t.failed && t.failKey == key {
			return t.draws, true // normalised: what was actually consumed
		}
		return nil, false
	}
	best := draws
	improved := true
	for improved && runs < budget {
		improved = false
		// 1. delete blocks
		for _, k := range []int{32, 16, 8, 4, 2, 1} {
			for i := 0; i+k <= len(best) && runs < budget; {
				cand := append(append([]Draw{}, best[:i]...), best[i+k:]...)
				if nb, ok := fails(cand); ok && len(nb) < len(best) {
					best = nb
					improved = true
				} else {
					i += k
				}
			}
		}
		// 2. lower integers
		for i := 0; i < len(best) && runs < budget; i++ {
			if best[i].K != "i" {
				if best[i].K == "b" && len(best[i].V) > 0 {
					cand := append([]Draw{}, best...)
					cand[i].V = ""
					if nb, ok := fails(cand); ok {
						best = nb
						improved = true
					}
				}
				continue
			}
			v, _ := strconv.ParseInt(best[i].V, 10, 64)
			lo := int64(0)
			if j := strings.Index(best[i].R, ".."); j > 0 {
				lo, _ = strconv.ParseInt(best[i].R[:j], 10, 64)
			}
			if v == lo {
				continue
			}
			try := func(nv int64) bool {
				cand := append([]Draw{}, best...)
				cand[i].V = strconv.FormatInt(nv, 10)
				if nb, ok := fails(cand); ok {
					best = nb
					improved = true
					return true
				}
				return false
			}
			if try(lo) {
				continue
			}
			// binary search towards lo
			l, h := lo, v
			for l+1 < h && runs < budget && i < len(best) {
				mid := l + (h-l)/2
				if try(mid) {
					h = mid
				} else {
					l = mid
				}
			}
		}
	}
	if os.Getenv("VT_VERBOSE") != "" {
		println("shrink: runs", runs, "draws", len(draws), "->", len(best))
	}
	return best
}

package vt

import (
	"fmt"
	"os"
	"sync"
	"sync/atomic"
)

// QuietLogger implements sts.Logger; it keeps the last messages in memory
// and prints only when VT_VERBOSE is set.
type QuietLogger struct {
	mu     sync.Mutex
	recent []string
}

// Count is the number of Info/Error messages seen (diagnostics).
var Count int64

func (l *QuietLogger) add(level string, p []interface{}) {
	atomic.AddInt64(&Count, 1)
	s := level + " " + fmt.Sprintln(p...)
	l.mu.Lock()
	l.recent = append(l.recent, s)
	if len(l.recent) > 2000 {
		l.recent = l.recent[1000:]
	}
	l.mu.Unlock()
	if os.Getenv("VT_VERBOSE") != "" {
		fmt.Fprint(os.Stderr, s)
	}
}

// Debug implements sts.Logger.
func (l *QuietLogger) Debug(p ...interface{}) {
	if os.Getenv("VT_VERBOSE") == "2" {
		l.add("DEBUG", p)
	}
}

// Info implements sts.Logger.
func (l *QuietLogger) Info(p ...interface{}) { l.add("INFO", p) }

// Error implements sts.Logger.
func (l *QuietLogger) Error(p ...interface{}) { l.add("ERROR", p) }

// Recent implements sts.Logger.
func (l *QuietLogger) Recent(n int) []string {
	l.mu.Lock()
	defer l.mu.Unlock()
	if n <= 0 || n > len(l.recent) {
		n = len(l.recent)
	}
	return append([]string{}, l.recent[len(l.recent)-n:]...)
}

// Command instrument generates a `go build -overlay` description that
// (1) inserts fileutil.VerifPause("<label>") before every statement of
// /repo/{stage,fileutil,log} that performs a durable step, (2) adds the file
// fileutil/zz_verifpause.go defining the (inert unless armed) hook, and
// (3) adds client/zz_verifexport.go exposing the sender's unexported
// recoverFile to the harness. /repo itself is never modified.
package main

import (
	"bytes"
	"encoding/json"
	"flag"
	"fmt"
	"go/ast"
	"go/parser"
	"go/printer"
	"go/token"
	"os"
	"path/filepath"
	"strings"
)

var durableSel = map[string]bool{
	"os.Rename": true, "os.Remove": true, "os.RemoveAll": true, "os.WriteFile": true, "os.Create": true,
	"os.OpenFile": true, "os.Mkdir": true, "os.MkdirAll": true, "os.Truncate": true, "os.Chtimes": true,
	"io.Copy": true, "io.CopyN": true,
	"fileutil.Move": true, "fileutil.Copy": true, "fileutil.WriteJSON": true, "fileutil.WriteHumanJSON": true,
}
var durableIdent = map[string]bool{"writeCompanion": true, "Move": true, "Copy": true, "writeJSON": true}
var durableMethod = map[string]bool{"Truncate": true, "Sync": true, "Println": true, "Received": true}

func calleeName(call *ast.CallExpr) string {
	switch f := call.Fun.(type) {
	case *ast.Ident:
		if durableIdent[f.Name] {
			return f.Name
		}
	case *ast.SelectorExpr:
		if x, ok := f.X.(*ast.Ident); ok {
			if durableSel[x.Name+"."+f.Sel.Name] {
				return x.Name + "." + f.Sel.Name
			}
		}
		if durableMethod[f.Sel.Name] {
			if f.Sel.Name == "Received" {
				// only logger.Received(...) (the log append), not Stage.Received
				if sx, ok := f.X.(*ast.SelectorExpr); !ok || sx.Sel.Name != "logger" {
					return ""
				}
			}
			return "." + f.Sel.Name
		}
	}
	return ""
}

// durableCalls lists durable callees in the expression parts of a statement
// itself (not in nested blocks or function literals).
func durableCalls(n ast.Node) (names []string) {
	if n == nil {
		return
	}
	ast.Inspect(n, func(x ast.Node) bool {
		switch v := x.(type) {
		case *ast.BlockStmt, *ast.FuncLit:
			return false
		case *ast.CallExpr:
			if c := calleeName(v); c != "" {
				names = append(names, c)
			}
		}
		return true
	})
	return
}

type inst struct {
	pkg   string
	fn    string
	count map[string]int
	total int
	self  bool // file is in package fileutil
}

func (in *inst) pauseStmt(callee string, pos token.Pos) ast.Stmt {
	in.count[callee]++
	in.total++
	label := fmt.Sprintf("%s.%s:%s#%d", in.pkg, in.fn, strings.TrimPrefix(callee, "."), in.count[callee])
	var fun ast.Expr = &ast.Ident{Name: "VerifPause", NamePos: pos}
	if !in.self {
		fun = &ast.SelectorExpr{X: &ast.Ident{Name: "fileutil", NamePos: pos}, Sel: &ast.Ident{Name: "VerifPause", NamePos: pos}}
	}
	return &ast.ExprStmt{X: &ast.CallExpr{Fun: fun, Lparen: pos,
		Args: []ast.Expr{&ast.BasicLit{Kind: token.STRING, Value: fmt.Sprintf("%q", label), ValuePos: pos}}, Rparen: pos}}
}

func (in *inst) stmtCalls(s ast.Stmt) []string {
	switch v := s.(type) {
	case *ast.ExprStmt, *ast.AssignStmt, *ast.ReturnStmt, *ast.DeclStmt, *ast.IncDecStmt, *ast.SendStmt:
		return durableCalls(v)
	case *ast.IfStmt:
		var out []string
		for cur := v; cur != nil; {
			out = append(out, durableCalls(cur.Init)...)
			out = append(out, durableCalls(cur.Cond)...)
			next, _ := cur.Else.(*ast.IfStmt)
			cur = next
		}
		return out
	case *ast.ForStmt:
		return append(durableCalls(v.Init), durableCalls(v.Cond)...)
	case *ast.RangeStmt:
		return durableCalls(v.X)
	case *ast.SwitchStmt:
		return append(durableCalls(v.Init), durableCalls(v.Tag)...)
	}
	return nil
}

func (in *inst) block(b *ast.BlockStmt) {
	if b == nil {
		return
	}
	var out []ast.Stmt
	for _, s := range b.List {
		for _, c := range in.stmtCalls(s) {
			out = append(out, in.pauseStmt(c, s.Pos()))
		}
		out = append(out, s)
		in.nested(s)
	}
	b.List = out
}

func (in *inst) nested(s ast.Stmt) {
	switch v := s.(type) {
	case *ast.BlockStmt:
		in.block(v)
	case *ast.IfStmt:
		in.block(v.Body)
		if v.Else != nil {
			in.nested(v.Else)
		}
	case *ast.ForStmt:
		in.block(v.Body)
	case *ast.RangeStmt:
		in.block(v.Body)
	case *ast.SwitchStmt:
		for _, c := range v.Body.List {
			cc := c.(*ast.CaseClause)
			tmp := &ast.BlockStmt{List: cc.Body}
			in.block(tmp)
			cc.Body = tmp.List
		}
	case *ast.TypeSwitchStmt:
		for _, c := range v.Body.List {
			cc := c.(*ast.CaseClause)
			tmp := &ast.BlockStmt{List: cc.Body}
			in.block(tmp)
			cc.Body = tmp.List
		}
	case *ast.SelectStmt:
		for _, c := range v.Body.List {
			cc := c.(*ast.CommClause)
			tmp := &ast.BlockStmt{List: cc.Body}
			in.block(tmp)
			cc.Body = tmp.List
		}
	case *ast.LabeledStmt:
		in.nested(v.Stmt)
	}
	// function literals inside the statement (walk callbacks, goroutines)
	ast.Inspect(s, func(x ast.Node) bool {
		if fl, ok := x.(*ast.FuncLit); ok {
			in.block(fl.Body)
			return false
		}
		if _, ok := x.(*ast.BlockStmt); ok && x != ast.Node(s) {
			return false
		}
		return true
	})
}

func instrumentFile(path, pkg string) ([]byte, int, error) {
	fset := token.NewFileSet()
	f, err := parser.ParseFile(fset, path, nil, parser.ParseComments)
	if err != nil {
		return nil, 0, err
	}
	total := 0
	for _, d := range f.Decls {
		fd, ok := d.(*ast.FuncDecl)
		if !ok || fd.Body == nil {
			continue
		}
		in := &inst{pkg: pkg, fn: fd.Name.Name, count: map[string]int{}, self: pkg == "fileutil"}
		in.block(fd.Body)
		total += in.total
	}
	if total > 0 && pkg != "fileutil" {
		has := false
		for _, im := range f.Imports {
			if strings.Trim(im.Path.Value, `"`) == "github.com/arm-doe/sts/fileutil" {
				has = true
			}
		}
		if !has {
			for _, d := range f.Decls {
				if gd, ok := d.(*ast.GenDecl); ok && gd.Tok == token.IMPORT {
					gd.Specs = append(gd.Specs, &ast.ImportSpec{Path: &ast.BasicLit{Kind: token.STRING, Value: `"github.com/arm-doe/sts/fileutil"`}})
					break
				}
			}
		}
	}
	var buf bytes.Buffer
	if err := printer.Fprint(&buf, fset, f); err != nil {
		return nil, 0, err
	}
	// must still parse
	if _, err := parser.ParseFile(token.NewFileSet(), path, buf.Bytes(), 0); err != nil {
		return nil, 0, err
	}
	return buf.Bytes(), total, nil
}

const pauseSrc = `package fileutil

// Added at build time by the verification harness (go build -overlay); not
// part of the repository. Inert unless a hook is installed.

// VerifHook is called with the label of each durable step about to happen.
var VerifHook func(string)

// VerifPause marks a point just before a durable step.
func VerifPause(label string) {
	if h := VerifHook; h != nil {
		h(label)
	}
}
`

const clientExportSrc = `package client

import "github.com/arm-doe/sts"

// Added at build time by the verification harness (go build -overlay).

// VerifNewRecoverFile exposes the sender's resumed-file type.
func VerifNewRecoverFile(c sts.Cached, prev string, left []*sts.ByteRange) sts.Recovered {
	return &recoverFile{Cached: c, prev: prev, left: left}
}

// VerifNewBinnable exposes the sender's chunk wrapper.
func VerifNewBinnable(s sts.Sendable, noPrev bool) sts.Binnable {
	return &binnable{Sendable: s, noPrev: noPrev}
}
`

func main() {
	repo := flag.String("repo", "/repo", "repository root")
	out := flag.String("out", "", "output directory")
	flag.Parse()
	if *out == "" {
		fmt.Fprintln(os.Stderr, "need -out")
		os.Exit(2)
	}
	os.MkdirAll(*out, 0755)
	replace := map[string]string{}
	report := map[string]int{}
	for _, pkg := range []string{"stage", "fileutil", "log"} {
		files, _ := filepath.Glob(filepath.Join(*repo, pkg, "*.go"))
		for _, f := range files {
			if strings.HasSuffix(f, "_test.go") {
				continue
			}
			src, n, err := instrumentFile(f, pkg)
			if err != nil {
				fmt.Fprintf(os.Stderr, "instrument %s: %v (left as is)\n", f, err)
				continue
			}
			if n == 0 {
				continue
			}
			dst := filepath.Join(*out, pkg+"_"+filepath.Base(f))
			if err := os.WriteFile(dst, src, 0644); err != nil {
				fmt.Fprintln(os.Stderr, err)
				os.Exit(2)
			}
			replace[f] = dst
			report[pkg+"/"+filepath.Base(f)] = n
		}
	}
	add := func(rel, src string) {
		dst := filepath.Join(*out, strings.ReplaceAll(rel, "/", "_"))
		os.WriteFile(dst, []byte(src), 0644)
		replace[filepath.Join(*repo, rel)] = dst
	}
	add("fileutil/zz_verifpause.go", pauseSrc)
	add("client/zz_verifexport.go", clientExportSrc)
	b, _ := json.MarshalIndent(map[string]any{"Replace": replace}, "", " ")
	os.WriteFile(filepath.Join(*out, "overlay.json"), b, 0644)
	rb, _ := json.MarshalIndent(report, "", " ")
	os.WriteFile(filepath.Join(*out, "report.json"), rb, 0644)
	fmt.Printf("pause points: %v\n", report)
}

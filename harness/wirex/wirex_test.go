// Package wirex drives the real sts binary in receiver mode (-mode in) over
// loopback HTTP: C14 (requests cannot touch anything outside the configured
// directories), C15 (unauthorised requests are refused without effect) and
// the HTTP leg of C13.
package wirex

import (
	"bytes"
	"crypto/md5"
	"encoding/json"
	"fmt"
	"io"
	"net"
	"net/http"
	"net/url"
	"os"
	"os/exec"
	"path/filepath"
	"sort"
	"strconv"
	"strings"
	"sync"
	"syscall"
	"testing"
	"time"

	"verif/harness/vt"
)

func md5hex(b []byte) string { return fmt.Sprintf("%x", md5.Sum(b)) }

type server struct {
	cmd     *exec.Cmd
	port    int
	sandbox string // everything lives below this directory
	home    string // sandbox/recv: STS_HOME of the receiver
	sources []string
	keys    []string
	log     *lockedBuffer
	exited  chan struct{}
}

// lockedBuffer: the child's output is written by exec's copier while the harness reads it.
type lockedBuffer struct {
	mu sync.Mutex
	b  bytes.Buffer
}

func (l *lockedBuffer) Write(p []byte) (int, error) {
	l.mu.Lock()
	defer l.mu.Unlock()
	return l.b.Write(p)
}

func (l *lockedBuffer) String() string {
	l.mu.Lock()
	defer l.mu.Unlock()
	return l.b.String()
}

var caseNo int

// basePort picks four consecutive loopback ports that are free right now (receiver, its
// internal port, the recording proxy, one spare). The starting point depends on shard and
// process id, so that shards of one run and of runs going on at the same time rarely meet;
// busy ports are stepped over.
func basePort() int {
	shard, _ := strconv.Atoi(os.Getenv("VT_SHARD"))
	start := (shard*131 + os.Getpid()*17 + caseNo*7) % 9000
	for i := 0; i < 9000; i++ {
		base := 21000 + ((start+i)%9000)*4
		free := true
		for k := 0; k < 4 && free; k++ {
			ln, err := net.Listen("tcp", fmt.Sprintf("127.0.0.1:%d", base+k))
			if err != nil {
				free = false
			} else {
				ln.Close()
			}
		}
		if free {
			return base
		}
	}
	return 21000 + (shard%400)*4
}

func startServer(t *vt.T, sources, keys []string) *server {
	bin := os.Getenv("VT_STS_BIN")
	if bin == "" {
		t.Skip("no sts binary")
	}
	caseNo++
	sb, err := os.MkdirTemp(os.Getenv("VT_TMP"), "wirex")
	if err != nil {
		t.Skip(err.Error())
	}
	s := &server{sandbox: sb, home: filepath.Join(sb, "area", "recv"), sources: sources, keys: keys, log: &lockedBuffer{}}
	// canaries around the receiver's roots
	for _, p := range []string{"canary.txt", "area/canary.txt", "area/other/secret.txt", "area/recv/canary.txt", "area/recv/data/canary.txt"} {
		os.MkdirAll(filepath.Join(sb, filepath.Dir(p)), 0755)
		os.WriteFile(filepath.Join(sb, p), []byte("CANARY-"+md5hex([]byte(p))), 0644)
	}
	var conf strings.Builder
	conf.WriteString("IN:\n")
	if len(sources) > 0 {
		conf.WriteString("  sources:\n")
		for _, x := range sources {
			fmt.Fprintf(&conf, "    - '%s'\n", x)
		}
	}
	if len(keys) > 0 {
		conf.WriteString("  keys:\n")
		for _, x := range keys {
			fmt.Fprintf(&conf, "    - '%s'\n", x)
		}
	}
	s.port = basePort()
	fmt.Fprintf(&conf, "  dirs:\n    stage: data/stage\n    final: data/in\n    logs: data/log\n    serve: data/serve\n  server:\n    http-host: 127.0.0.1\n    http-port: %d\n    compress: 0\n", s.port)
	os.MkdirAll(filepath.Join(s.home, "conf"), 0755)
	confPath := filepath.Join(s.home, "conf", "sts.in.yaml")
	os.WriteFile(confPath, []byte(conf.String()), 0644)
	s.cmd = exec.Command(bin, "-mode", "in", "-root", s.home, "-conf", confPath)
	s.cmd.Stdout = s.log
	s.cmd.Stderr = s.log
	s.cmd.Dir = s.home
	s.cmd.SysProcAttr = &syscall.SysProcAttr{Pdeathsig: syscall.SIGKILL}
	if err := s.cmd.Start(); err != nil {
		t.Skip("start: " + err.Error())
	}
	s.exited = make(chan struct{})
	go func() { s.cmd.Wait(); close(s.exited) }()
	deadline := time.Now().Add(5 * time.Second)
	for {
		c, err := net.DialTimeout("tcp", fmt.Sprintf("127.0.0.1:%d", s.port), 100*time.Millisecond)
		if err == nil {
			c.Close()
			break
		}
		if time.Now().After(deadline) {
			s.stop()
			t.Skip("server did not come up: " + s.log.String())
		}
		time.Sleep(10 * time.Millisecond)
	}
	// the port answers - but is it OUR receiver? Another process may have taken the port between
	// the probe and the start (ours then failed to bind and is gone, or is about to go)
	time.Sleep(40 * time.Millisecond)
	bindFailed := strings.Contains(s.log.String(), "address already in use")
	select {
	case <-s.exited:
		bindFailed = true
	default:
	}
	if bindFailed {
		// (a receiver that cannot bind logs the error and stays alive)
		s.stop()
		t.Skip("the receiver could not bind its port (taken by another process): " + tail(s.log.String(), 300))
	}
	return s
}

func (s *server) stop() {
	if s.cmd != nil && s.cmd.Process != nil {
		s.cmd.Process.Kill()
		if s.exited != nil {
			<-s.exited
		} else {
			s.cmd.Wait()
		}
	}
	os.RemoveAll(s.sandbox)
}

// snapshot of the whole sandbox: path -> "size:md5" (directories: "dir")
func (s *server) snapshot() map[string]string {
	m := map[string]string{}
	filepath.Walk(s.sandbox, func(p string, info os.FileInfo, err error) error {
		if err != nil {
			return nil
		}
		rel, _ := filepath.Rel(s.sandbox, p)
		if info.IsDir() {
			m[rel] = "dir"
			return nil
		}
		b, _ := os.ReadFile(p)
		m[rel] = fmt.Sprintf("%d:%s", len(b), md5hex(b))
		return nil
	})
	return m
}

func (s *server) settle() map[string]string {
	prev := s.snapshot()
	same := 0
	for i := 0; i < 60; i++ {
		time.Sleep(15 * time.Millisecond)
		cur := s.snapshot()
		if sameSnap(prev, cur) {
			same++
			if same >= 2 {
				return cur
			}
		} else {
			same = 0
		}
		prev = cur
	}
	return prev
}

func sameSnap(a, b map[string]string) bool {
	if len(a) != len(b) {
		return false
	}
	for k, v := range a {
		if b[k] != v {
			return false
		}
	}
	return true
}

func diffSnap(a, b map[string]string) (out []string) {
	for k, v := range b {
		if av, ok := a[k]; !ok {
			out = append(out, "+"+k)
		} else if av != v {
			out = append(out, "~"+k)
		}
	}
	for k := range a {
		if _, ok := b[k]; !ok {
			out = append(out, "-"+k)
		}
	}
	sort.Strings(out)
	return
}

// allowedPrefixes: where a request authorised as "source" may cause changes.
func allowedPrefixes(source string) []string {
	dir := strings.ReplaceAll(source, "/", "--")
	return []string{
		"area/recv/data/stage/" + dir,
		"area/recv/data/in/" + dir,
		"area/recv/data/log/incoming_from/" + dir,
		"area/recv/data/serve/" + dir,
		"area/recv/data/log/messages", // the general message log
	}
}

func under(path, prefix string) bool {
	return path == prefix || strings.HasPrefix(path, prefix+"/")
}

// the source's directory name (path separators replaced by "--") must be a
// real sub-directory name below the roots
func plainSource(source string) bool {
	dir := strings.ReplaceAll(source, "/", "--")
	return dir != "" && dir != "." && dir != ".." && !strings.Contains(dir, "\x00")
}

type request struct {
	method, path string
	query        url.Values
	header       http.Header
	body         []byte
	desc         string
}

func (s *server) do(r request) (status int, body []byte, err error) {
	u := fmt.Sprintf("http://127.0.0.1:%d%s", s.port, r.path)
	if len(r.query) > 0 {
		u += "?" + r.query.Encode()
	}
	req, err := http.NewRequest(r.method, u, bytes.NewReader(r.body))
	if err != nil {
		return 0, nil, err
	}
	for k, v := range r.header {
		req.Header[k] = v
	}
	cl := &http.Client{Timeout: 5 * time.Second, CheckRedirect: func(*http.Request, []*http.Request) error { return http.ErrUseLastResponse },
		Transport: &http.Transport{DisableKeepAlives: true}}
	resp, err := cl.Do(req)
	if err != nil {
		return 0, nil, err
	}
	defer resp.Body.Close()
	b, _ := io.ReadAll(io.LimitReader(resp.Body, 1<<20))
	return resp.StatusCode, b, nil
}

type partMeta struct {
	Name    string `json:"n"`
	Renamed string `json:"r"`
	Prev    string `json:"p"`
	Hash    string `json:"f"`
	Time    string `json:"t"`
	Size    int64  `json:"s"`
	Beg     int64  `json:"b"`
	End     int64  `json:"e"`
}

func dataRequest(source, key, sep string, parts []partMeta, datas [][]byte, route string) request {
	meta, _ := json.Marshal(parts)
	body := append([]byte{}, meta...)
	if route == "/data" {
		for _, d := range datas {
			body = append(body, d...)
		}
	}
	h := http.Header{}
	if source != "" {
		h.Set("X-STS-SrcName", source)
	}
	if key != "" {
		h.Set("X-STS-Key", key)
	}
	if sep != "" {
		h.Set("X-STS-Sep", sep)
	}
	if route == "/data" {
		h.Set("X-STS-MetaLen", strconv.Itoa(len(meta)))
	}
	return request{method: "PUT", path: route, query: url.Values{"v": {"1"}}, header: h, body: body}
}

// ---------------------------------------------------------------------------
// C14

var hostile = []string{"../x", "../../canary.txt", "../../../canary.txt", "/etc/passwd.sts", "a/../../b", "..", "./../up", "a//b", "sub/../../../area/other/secret.txt",
	"..\\..\\w", "%2e%2e/x", "%2e%2e%2fy", "ok/name.dat", "deep/er/name.dat", strings.Repeat("L", 300), "uni/ço de.dat", "a/./b",
	// (appended later, so that older replay files keep their meaning) names that stay inside but
	// come down to the directory itself
	"x/..", "a/b/../..", "./", "sub/.."}

func propTraversal(t *vt.T) {
	withSources := t.Bool("withSourceList")
	var sources []string
	if withSources {
		sources = []string{"alpha", "be/ta"}
	}
	s := startServer(t, sources, nil)
	defer s.stop()
	// something to serve and to protect in the authorised source's own serve dir
	os.MkdirAll(filepath.Join(s.home, "data/serve/alpha/sub"), 0755)
	os.WriteFile(filepath.Join(s.home, "data/serve/alpha/sub/ok.txt"), []byte("served"), 0644)
	os.MkdirAll(filepath.Join(s.home, "data/serve/zeta"), 0755)
	os.WriteFile(filepath.Join(s.home, "data/serve/zeta/private.txt"), []byte("CANARY-zeta-private"), 0644)
	n := t.IntRange("nRequests", 1, 12)
	var earlier []string
	for i := 0; i < n; i++ {
		srcOpts := []string{"alpha", "alpha", "alpha", "be/ta", "..", "../other", "alpha/../zeta", ".", "a\\b", "alpha%2f..", "/abs"}
		source := srcOpts[t.Pick("source", len(srcOpts))]
		pick := func(label string) string { return hostile[t.Pick(label, len(hostile))] }
		var r request
		escapeAttempt := !plainSource(source)
		switch t.Pick("route", 6) {
		case 0, 1: // data
			name, rename, prev := pick("name"), "", ""
			if t.Bool("hasRename") {
				rename = pick("rename")
			}
			if t.Bool("hasPrev") {
				prev = pick("prev")
			}
			sep := []string{"/", "", "\\", "..", "a", "|", "SEP"}[t.Weighted("sep", 6, 1, 2, 1, 1, 2, 1)]
			// each field may instead be a path spelled with a drawn joiner - the announced
			// separator, or one of the two conventional ones (drawn after the fields above so
			// that older replay files keep their meaning)
			spell := func(label, old string) string {
				if old == "" || t.Weighted(label+"Spelled", 1, 1) == 0 {
					return old
				}
				joiners := []string{sep, sep, "/", "\\"}
				j := joiners[t.Pick(label+"Joiner", len(joiners))]
				if j == "" {
					j = "/"
				}
				comps := []string{"..", "..", "..", "..", "..", ".", "ok", "sub", "area", "other", "canary.txt", "secret.txt", "data", "final", "alpha", "zeta"}
				n := t.IntRange(label+"Comps", 2, 6)
				var cs []string
				for k := 0; k < n; k++ {
					cs = append(cs, comps[t.Pick(label+"Comp", len(comps))])
				}
				return strings.Join(cs, j)
			}
			name, rename, prev = spell("name", name), spell("rename", rename), spell("prev", prev)
			data := []byte("payload-" + strconv.Itoa(i))
			pm := partMeta{Name: name, Renamed: rename, Prev: prev, Hash: md5hex(data), Time: "1900000000+5", Size: int64(len(data)), Beg: 0, End: int64(len(data))}
			r = dataRequest(source, "", sep, []partMeta{pm}, [][]byte{data}, "/data")
			r.desc = fmt.Sprintf("PUT /data source=%q sep=%q name=%q rename=%q prev=%q", source, sep, name, rename, prev)
			for _, f := range []string{name, rename, prev} {
				if strings.Contains(f, "..") || strings.HasPrefix(f, "/") || strings.Contains(f, "\\") {
					escapeAttempt = true
				}
			}
		case 2: // data-recovery
			name := pick("name")
			pm := partMeta{Name: name, Hash: md5hex([]byte("x")), Time: "1900000000+5", Size: 1, Beg: 0, End: 1}
			r = dataRequest(source, "", "/", []partMeta{pm}, nil, "/data-recovery")
			r.desc = fmt.Sprintf("PUT /data-recovery source=%q name=%q", source, name)
			escapeAttempt = escapeAttempt || strings.Contains(name, "..") || strings.HasPrefix(name, "/")
		case 3: // validate
			name := pick("name")
			b, _ := json.Marshal([]map[string]any{{"n": name, "t": 1900000000}})
			h := http.Header{"X-Sts-Srcname": {source}, "Content-Type": {"application/json"}, "X-Sts-Sep": {"/"}}
			r = request{method: "POST", path: "/validate", query: url.Values{"v": {"1"}}, header: h, body: b, desc: fmt.Sprintf("POST /validate source=%q name=%q", source, name)}
			escapeAttempt = escapeAttempt || strings.Contains(name, "..") || strings.HasPrefix(name, "/")
		case 4: // partials
			h := http.Header{"X-Sts-Srcname": {source}}
			r = request{method: "GET", path: "/partials", query: url.Values{"v": {[]string{"1", "", "../x"}[t.Pick("vers", 3)]}}, header: h, desc: fmt.Sprintf("GET /partials source=%q", source)}
		case 5: // static
			p := []string{"sub/ok.txt", "../zeta/private.txt", "..%2fzeta%2fprivate.txt", "sub/../../zeta/private.txt", "", "//sub//ok.txt", "../../../canary.txt", "sub/%2e%2e/%2e%2e/zeta/private.txt"}[t.Pick("staticPath", 8)]
			method := []string{"GET", "DELETE"}[t.Pick("staticMethod", 2)]
			h := http.Header{"X-Sts-Srcname": {source}}
			r = request{method: method, path: "/static/" + p, header: h, desc: fmt.Sprintf("%s /static/%s source=%q", method, p, source)}
			escapeAttempt = escapeAttempt || strings.Contains(p, "..") || strings.Contains(p, "%2e")
		}
		before := s.settle()
		status, body, err := s.do(r)
		after := s.settle()
		t.Note("%s -> %d %v", r.desc, status, err)
		if escapeAttempt {
			t.NonTrivial()
			t.Class("escape-attempt")
		}
		// disclosure
		if bytes.Contains(body, []byte("CANARY-")) {
			t.Violation("discloses-file-outside-roots", "%s -> %d; the answer contains the content of a file outside the directories of source %q: %.80q", r.desc, status, source, body)
		}
		allowedSrc := !withSources || source == "alpha" || source == "be/ta"
		// validation and delivery run behind the answer: a late effect of an earlier, authorised
		// request of this case (under that source's own directories) is not this request's doing
		late := func(p string) bool {
			for _, pre := range earlier {
				if under(p, pre) || under(pre, p) {
					return true
				}
			}
			return false
		}
		for _, d := range diffSnap(before, after) {
			p := d[1:]
			ok := false
			if late(p) {
				ok = true
				t.Class("late-effect-of-earlier-request")
			}
			if allowedSrc && plainSource(source) {
				for _, pre := range allowedPrefixes(source) {
					if under(p, pre) || under(pre, p) {
						ok = true
					}
					if p == pre && after[p] != "" && after[p] != "dir" {
						// the source's own root has become a FILE: something was delivered onto the
						// directory name itself
						ok = false
						break
					}
				}
			} else if under(p, "area/recv/data/log/messages") {
				ok = true
			}
			if !ok {
				key := "touches-path-outside-roots"
				if !under(p, "area/recv/data") {
					key = "touches-path-outside-receiver-directories"
				}
				if !plainSource(source) && allowedSrc {
					key += "-via-source-name"
				}
				t.Violation(key, "%s -> %d; change %s is outside the stage / final / log / serve directories of source %q (all changes: %v)", r.desc, status, d, source, diffSnap(before, after))
			}
		}
		if status >= 400 && status < 500 && status != 404 {
			for _, d := range diffSnap(before, after) {
				if !under(d[1:], "area/recv/data/log/messages") && !late(d[1:]) {
					t.Violation("refused-request-had-side-effect", "%s was refused with %d but changed %s", r.desc, status, d)
				}
			}
		}
		if allowedSrc && plainSource(source) {
			// (whatever the answer was, or if none came in time: the receiver may still act on it)
			earlier = append(earlier, allowedPrefixes(source)...)
		}
	}
}

func TestC14Wire(t *testing.T) { vt.Check(t, "C14", propTraversal) }

// ---------------------------------------------------------------------------
// C15: unauthorised requests are refused without any effect

func propAuth(t *vt.T) {
	srcSets := [][]string{nil, {"alpha"}, {"alpha", "beta.b", "gam/ma"}}
	keySets := [][]string{nil, {"k1"}, {"k1", "k2"}}
	sources := srcSets[t.Pick("sourceList", 3)]
	keys := keySets[t.Pick("keyList", 3)]
	if sources == nil && keys == nil {
		keys = keySets[1]
	}
	s := startServer(t, sources, keys)
	defer s.stop()
	t.Note("config: sources=%v keys=%v", sources, keys)
	os.MkdirAll(filepath.Join(s.home, "data/serve/alpha"), 0755)
	os.WriteFile(filepath.Join(s.home, "data/serve/alpha/ok.txt"), []byte("served"), 0644)
	// an authorised sender leaves a partial behind and notes what it is told
	auth := "alpha"
	authKey := ""
	if len(keys) > 0 {
		authKey = keys[0]
	}
	data := []byte("authorised-content")
	pm := partMeta{Name: "a/file.dat", Hash: md5hex(data), Time: "1900000000+5", Size: int64(len(data)), Beg: 0, End: 8}
	st, _, _ := s.do(dataRequest(auth, authKey, "/", []partMeta{pm}, [][]byte{data[:8]}, "/data"))
	if st != 200 {
		t.Violation("authorised-request-refused", "an authorised data request (source %q key %q) was answered %d", auth, authKey, st)
	}
	ask := func() string {
		h := http.Header{"X-Sts-Srcname": {auth}}
		if authKey != "" {
			h.Set("X-STS-Key", authKey)
		}
		_, b1, _ := s.do(request{method: "GET", path: "/partials", query: url.Values{"v": {"1"}}, header: h})
		r := dataRequest(auth, authKey, "/", []partMeta{pm}, nil, "/data-recovery")
		st2, _, _ := s.do(r)
		return fmt.Sprintf("%s|%d", b1, st2)
	}
	told := ask()
	var allowedEarlier []string
	n := t.IntRange("nRequests", 1, 14)
	for i := 0; i < n; i++ {
		srcOpts := []string{"alpha", "zeta", "", "ALPHA", "alp/ha", "..", "alpha.*", "a|b", "beta.b", "gam/ma", "alphax"}
		keyOpts := []string{"k1", "wrong", "", "K1", "k2", "k1x", ".*"}
		source := srcOpts[t.Pick("source", len(srcOpts))]
		key := keyOpts[t.Pick("key", len(keyOpts))]
		inQuery := t.Weighted("placement", 3, 1) == 1
		srcAllowed := source != "" && (len(sources) == 0 || contains(sources, source))
		keyAllowed := len(keys) == 0 || contains(keys, key)
		allowed := srcAllowed && keyAllowed
		h := http.Header{}
		q := url.Values{"v": {"1"}}
		if inQuery {
			if source != "" {
				q.Set("source", source)
			}
			if key != "" {
				q.Set("key", key)
			}
		} else {
			if source != "" {
				h.Set("X-STS-SrcName", source)
			}
			if key != "" {
				h.Set("X-STS-Key", key)
			}
		}
		var r request
		body := []byte("intruder")
		ipm := partMeta{Name: "a/file.dat", Hash: md5hex(body), Time: "1900000000+5", Size: int64(len(body)), Beg: 0, End: int64(len(body))}
		meta, _ := json.Marshal([]partMeta{ipm})
		switch t.Pick("route", 6) {
		case 0:
			h.Set("X-STS-MetaLen", strconv.Itoa(len(meta)))
			h.Set("X-STS-Sep", "/")
			r = request{method: "PUT", path: "/data", query: q, header: h, body: append(append([]byte{}, meta...), body...)}
		case 1:
			h.Set("X-STS-Sep", "/")
			r = request{method: "PUT", path: "/data-recovery", query: q, header: h, body: meta}
		case 2:
			b, _ := json.Marshal([]map[string]any{{"n": "a/file.dat", "t": 1900000000}})
			h.Set("Content-Type", "application/json")
			r = request{method: "POST", path: "/validate", query: q, header: h, body: b}
		case 3:
			r = request{method: "GET", path: "/partials", query: q, header: h}
		case 4:
			r = request{method: "GET", path: "/static/ok.txt", query: q, header: h}
		case 5:
			r = request{method: "DELETE", path: "/static/ok.txt", query: q, header: h}
		}
		r.desc = fmt.Sprintf("%s %s source=%q key=%q (in %s)", r.method, r.path, source, key, map[bool]string{true: "query", false: "header"}[inQuery])
		before := s.settle()
		status, _, err := s.do(r)
		after := s.settle()
		t.Note("%s -> %d %v (allowed=%v)", r.desc, status, err, allowed)
		if allowed {
			// validation and delivery of what it sent run behind the answer: let them finish, and
			// remember whose directories a straggler would show up in
			time.Sleep(60 * time.Millisecond)
			s.settle()
			told = ask() // an authorised request may change what the sender is told
			if source != "" {
				allowedEarlier = append(allowedEarlier, source)
			}
			continue
		}
		// differs from an authorised request in exactly one of source / key?
		if (srcAllowed != keyAllowed) || source == "ALPHA" || key == "K1" {
			t.NonTrivial()
		}
		t.Class("unauthorised-request")
		want := 403
		if source == "" {
			want = 400
		}
		if status != want && !(source == ".." || source == ".") {
			t.Violation("unauthorised-request-not-refused", "%s was answered %d, expected %d (sources %v, keys %v)", r.desc, status, want, sources, keys)
		}
		if status < 400 {
			t.Violation("unauthorised-request-not-refused", "%s was answered %d (sources %v, keys %v)", r.desc, status, sources, keys)
		}
		for _, d := range diffSnap(before, after) {
			late := false
			for _, es := range allowedEarlier {
				if es == source {
					continue // its own source: judged strictly
				}
				for _, pre := range allowedPrefixes(es) {
					if under(d[1:], pre) {
						late = true
					}
				}
			}
			if late {
				t.Class("late-effect-of-earlier-authorised-request")
				continue
			}
			if !under(d[1:], "area/recv/data/log/messages") {
				t.Violation("unauthorised-request-had-effect", "%s was refused (%d) but changed %s (stage, final, receive-log and serve directories must stay untouched)", r.desc, status, d)
			}
		}
		if now := ask(); now != told {
			t.Violation("unauthorised-request-changed-answers", "after %s (refused %d) the authorised sender is told %q instead of %q", r.desc, status, now, told)
		}
	}
}

func contains(l []string, x string) bool {
	for _, y := range l {
		if x == y {
			return true
		}
	}
	return false
}

func TestC15Wire(t *testing.T) { vt.Check(t, "C15", propAuth) }

package wirex

// C19, last clause: the running sender applies each tag's priority, order,
// deletion and method settings to exactly the files whose names match that
// tag's pattern, and the default tag's to all others.
//
// World: the real sts binary twice - a receiver (-mode in) and a one-shot
// sender (-mode out, no -loop: scan once, send, poll, record, exit) - with the
// harness as a recording HTTP proxy between them. The proxy reads the part
// descriptors of every PUT /data in the order the (single-threaded) sender
// issues them; that is the send order. Nothing is injected.

import (
	"bytes"
	"compress/gzip"
	"context"
	"encoding/json"
	"fmt"
	"io"
	"net"
	"net/http"
	"os"
	"os/exec"
	"path/filepath"
	"regexp"
	"sort"
	"strconv"
	"strings"
	"sync"
	"syscall"
	"testing"
	"time"

	"verif/harness/vt"
)

type wirePartSeen struct {
	name     string
	beg, end int64
	req      int
}

type recProxy struct {
	mu     sync.Mutex
	parts  []wirePartSeen
	nreq   int
	target string
	srv    *http.Server
	bad    []string
	// fault injection (C08 over the wire): what to do with the n-th request of a kind
	dataFault, recFault, pollFault map[int]string
	cutAt                          map[int]int
	nrec, npoll, seq               int
	events                         []wireEvent
}

// wireEvent: one request as the sender and the receiver saw it
type wireEvent struct {
	kind       string // data | recover | poll
	fault      string
	parts      []partMeta
	arrived    int // sequence number when the request reached the proxy
	answered   int // sequence number when the sender got its answer
	toldN      int // number of leading parts the answer told the sender are on record (-1: nothing told)
	serverCode int
	serverN    int
}

func (p *recProxy) ServeHTTP(w http.ResponseWriter, r *http.Request) {
	body, _ := io.ReadAll(r.Body)
	if p.dataFault != nil {
		p.serveFaulty(w, r, body)
		return
	}
	if r.Method == "PUT" && r.URL.Path == "/data" {
		raw := body
		if r.Header.Get("Content-Encoding") == "gzip" {
			if zr, err := gzip.NewReader(bytes.NewReader(body)); err == nil {
				raw, _ = io.ReadAll(zr)
			}
		}
		n, _ := strconv.Atoi(r.Header.Get("X-STS-MetaLen"))
		var pm []partMeta
		if n > 0 && n <= len(raw) && json.Unmarshal(raw[:n], &pm) == nil {
			p.mu.Lock()
			p.nreq++
			for _, m := range pm {
				p.parts = append(p.parts, wirePartSeen{filepath.ToSlash(m.Name), m.Beg, m.End, p.nreq})
			}
			p.mu.Unlock()
		} else {
			p.mu.Lock()
			p.bad = append(p.bad, fmt.Sprintf("unreadable data request (meta length %d of %d bytes)", n, len(raw)))
			p.mu.Unlock()
		}
	}
	req, err := http.NewRequest(r.Method, "http://"+p.target+r.URL.RequestURI(), bytes.NewReader(body))
	if err != nil {
		w.WriteHeader(502)
		return
	}
	for k, v := range r.Header {
		req.Header[k] = v
	}
	cl := &http.Client{Timeout: 20 * time.Second, Transport: &http.Transport{DisableKeepAlives: true, DisableCompression: true}}
	resp, err := cl.Do(req)
	if err != nil {
		w.WriteHeader(502)
		return
	}
	defer resp.Body.Close()
	for k, v := range resp.Header {
		w.Header()[k] = v
	}
	w.WriteHeader(resp.StatusCode)
	io.Copy(w, resp.Body)
}

func (p *recProxy) forward(r *http.Request, body []byte) (*http.Response, []byte, error) {
	req, err := http.NewRequest(r.Method, "http://"+p.target+r.URL.RequestURI(), bytes.NewReader(body))
	if err != nil {
		return nil, nil, err
	}
	for k, v := range r.Header {
		req.Header[k] = v
	}
	req.ContentLength = int64(len(body))
	cl := &http.Client{Timeout: 20 * time.Second, Transport: &http.Transport{DisableKeepAlives: true, DisableCompression: true}}
	resp, err := cl.Do(req)
	if err != nil {
		return nil, nil, err
	}
	defer resp.Body.Close()
	b, _ := io.ReadAll(resp.Body)
	return resp, b, nil
}

func relay(w http.ResponseWriter, resp *http.Response, b []byte) {
	for k, v := range resp.Header {
		w.Header()[k] = v
	}
	w.WriteHeader(resp.StatusCode)
	w.Write(b)
}

// serveFaulty: the proxy as an unreliable network. refuse = the receiver never sees the request;
// lost = the receiver processes it, the sender gets an error; cut = the receiver sees the request
// body end early (and answers partial content, which is passed on).
func (p *recProxy) serveFaulty(w http.ResponseWriter, r *http.Request, body []byte) {
	ev := wireEvent{toldN: -1}
	p.mu.Lock()
	p.seq++
	ev.arrived = p.seq
	switch {
	case r.Method == "PUT" && r.URL.Path == "/data":
		p.nreq++
		ev.kind, ev.fault = "data", p.dataFault[p.nreq]
		if n, _ := strconv.Atoi(r.Header.Get("X-STS-MetaLen")); n > 0 && n <= len(body) {
			json.Unmarshal(body[:n], &ev.parts)
			if ev.fault == "cut" {
				dl := len(body) - n
				if dl > 0 {
					body = body[:n+p.cutAt[p.nreq]%dl]
				} else {
					ev.fault = ""
				}
			}
		} else {
			p.bad = append(p.bad, "unreadable data request")
		}
	case r.Method == "PUT" && r.URL.Path == "/data-recovery":
		p.nrec++
		ev.kind, ev.fault = "recover", p.recFault[p.nrec]
		json.Unmarshal(body, &ev.parts)
	case r.URL.Path == "/validate":
		p.npoll++
		ev.kind, ev.fault = "poll", p.pollFault[p.npoll]
	default:
		ev.kind = "other"
	}
	p.mu.Unlock()
	finish := func() {
		p.mu.Lock()
		p.seq++
		ev.answered = p.seq
		p.events = append(p.events, ev)
		p.mu.Unlock()
	}
	if ev.fault == "refuse" {
		finish()
		w.WriteHeader(503)
		return
	}
	resp, b, err := p.forward(r, body)
	if err != nil {
		finish()
		w.WriteHeader(502)
		return
	}
	ev.serverCode = resp.StatusCode
	ev.serverN, _ = strconv.Atoi(resp.Header.Get("X-STS-PartCount"))
	if ev.fault == "lost" {
		finish()
		w.WriteHeader(502)
		return
	}
	switch {
	case ev.kind == "data" && resp.StatusCode == 200:
		ev.toldN = len(ev.parts)
	case ev.kind == "data" && resp.StatusCode == 206:
		ev.toldN = ev.serverN
	case ev.kind == "recover" && resp.StatusCode == 200:
		ev.toldN = ev.serverN
	}
	finish()
	relay(w, resp, b)
}

func startProxy(port int, target string) (*recProxy, error) {
	p := &recProxy{target: target}
	ln, err := net.Listen("tcp", fmt.Sprintf("127.0.0.1:%d", port))
	if err != nil {
		return nil, err
	}
	p.srv = &http.Server{Handler: p}
	go p.srv.Serve(ln)
	return p, nil
}

type tagSpec struct {
	pattern  string // "" = DEFAULT
	priority *int
	order    string // "" = absent
	del      *bool
	method   string // "" = absent
}

type tagEff struct {
	priority int
	order    string
	del      bool
	http     bool
}

var runDirs = []string{"info", "comlogs", "data", "misc"}
var runLeaves = []string{"a.txt", "b.dat", "README", "c.1.nc", "LOG", "d.txt"}
var runPatterns = []string{`^info/`, `^comlogs/`, `^data/`, `^(info|misc)/`, `^(data|comlogs)/`, `^misc/`}

func propTagsRun(t *vt.T) {
	bin := os.Getenv("VT_STS_BIN")
	s := startServer(t, nil, nil)
	defer s.stop()
	proxy, err := startProxy(s.port+2, fmt.Sprintf("127.0.0.1:%d", s.port))
	if err != nil {
		t.Skip("proxy: " + err.Error())
	}
	defer func() {
		ctx, cancel := context.WithTimeout(context.Background(), time.Second)
		proxy.srv.Shutdown(ctx)
		cancel()
	}()

	// ---- tags
	pi := func(label string, lo, hi int) *int {
		if t.Weighted(label+"Given", 1, 2) == 0 {
			return nil
		}
		v := t.IntRange(label, lo, hi)
		return &v
	}
	pb := func(label string) *bool {
		if t.Weighted(label+"Given", 1, 2) == 0 {
			return nil
		}
		v := t.Bool(label)
		return &v
	}
	orders := []string{"", "fifo", "lifo", "none"}
	dp, dd := t.IntRange("defPriority", 0, 3), t.Bool("defDelete")
	tags := []tagSpec{{pattern: "", priority: &dp, order: orders[1+t.Pick("defOrder", 3)], del: &dd, method: "http"}}
	// group-by: the default (up to the first dot), the top directory with its slash, or the
	// leading lower-case letters - which are none for names starting with a digit: such a file's
	// group is then found through the tag its name matches. Patterns are chosen so that matching
	// the group and matching the name agree.
	gbMode := t.Weighted("groupBy", 2, 1, 2)
	groupBy := []string{"", `^([a-z]+/)`, `^([a-z]*)`}[gbMode]
	dirsV, patsV := runDirs, runPatterns
	if gbMode == 2 {
		dirsV = []string{"info", "data", "2024", "7x", "2024", "7x"}
		patsV = []string{`^info`, `^2024`, `^data`, `^(2024|data)`, `^(info|7x)`, `^7x`}
		t.Class("group-by-with-empty-capture")
	}
	np := t.IntRange("nPatternTags", 0, 3)
	perm := t.Perm("patternOrder", len(patsV))
	for i := 0; i < np; i++ {
		tags = append(tags, tagSpec{pattern: patsV[perm[i]], priority: pi("priority", 1, 3), order: orders[t.Pick("order", 4)], del: pb("delete"),
			method: []string{"", "http", "disk", "none"}[t.Weighted("method", 2, 1, 2, 1)]})
	}
	// (an explicit zero priority is not generated for pattern tags: what it means under inheritance is
	// the first clause's subject and a recorded finding there)
	// ---- files
	nf := t.IntRange("nFiles", 2, 9)
	type srcF struct {
		name string
		data []byte
		tm   time.Time
	}
	var files []srcF
	seen := map[string]bool{}
	base := time.Now().Add(-2 * time.Hour).Truncate(time.Second)
	ages := t.Perm("ageOrder", nf)
	for i := 0; i < nf; i++ {
		name := dirsV[t.Pick("dir", len(dirsV))] + "/" + runLeaves[t.Pick("leaf", len(runLeaves))]
		if seen[name] {
			continue
		}
		seen[name] = true
		size := []int{1, 40, 700, 2500}[t.Pick("size", 4)]
		data := make([]byte, size)
		for j := range data {
			data[j] = byte('a' + (i*7+j*3)%26)
		}
		files = append(files, srcF{name, data, base.Add(time.Duration(ages[i]*20) * time.Second)})
	}
	// a non-HTTP tag must not overlap another pattern tag on the generated names: which of two
	// overlapping tags' methods applies is not something the statement settles
	for i := 1; i < len(tags); i++ {
		if tags[i].method == "" || tags[i].method == "http" {
			continue
		}
		ri := regexp.MustCompile(tags[i].pattern)
		for j := 1; j < len(tags); j++ {
			if j == i {
				continue
			}
			rj := regexp.MustCompile(tags[j].pattern)
			for _, f := range files {
				if ri.MatchString(f.name) && rj.MatchString(f.name) {
					tags[i].method = "http"
				}
			}
		}
	}
	// ---- effective settings (omitted options take the default tag's value)
	eff := make([]tagEff, len(tags))
	for i, tg := range tags {
		e := tagEff{priority: *tags[0].priority, order: tags[0].order, del: *tags[0].del, http: true}
		if tg.priority != nil {
			e.priority = *tg.priority
		}
		if tg.order != "" {
			e.order = tg.order
		}
		if tg.del != nil {
			e.del = *tg.del
		}
		if tg.method != "" {
			e.http = tg.method == "http"
		}
		eff[i] = e
	}
	tagOf := func(name string) int {
		for i := 1; i < len(tags); i++ {
			if regexp.MustCompile(tags[i].pattern).MatchString(name) {
				return i
			}
		}
		return 0
	}
	group := func(name string) string {
		switch gbMode {
		case 0:
			if i := strings.Index(name, "."); i > 0 {
				return name[:i]
			}
			return "tag:" + tags[tagOf(name)].pattern // no dot: the group is found through the tag
		case 1:
			return name[:strings.Index(name, "/")+1]
		}
		m := regexp.MustCompile(`^([a-z]*)`).FindStringSubmatch(name)[1]
		if m != "" && m != name {
			return m
		}
		return "tag:" + tags[tagOf(name)].pattern
	}
	// ---- sender set-up
	home := filepath.Join(s.sandbox, "area", "send")
	out := filepath.Join(home, "data", "out", "recv1")
	for _, f := range files {
		p := filepath.Join(out, f.name)
		os.MkdirAll(filepath.Dir(p), 0755)
		os.WriteFile(p, f.data, 0644)
		os.Chtimes(p, f.tm, f.tm)
	}
	var conf strings.Builder
	binSize := []string{"300B", "1KB", "64KB"}[t.Pick("binSize", 3)]
	compress := []int{0, 0, 1, 6}[t.Pick("compress", 4)]
	fmt.Fprintf(&conf, "OUT:\n  dirs:\n    cache: .sts/out\n    logs: data/log\n    out: data/out\n  sources:\n    - name: src1\n      threads: 1\n      scan-delay: 1s\n      cache-age: 5m\n      min-age: 0s\n"+
		"      bin-size: %s\n      compress: %d\n      poll-delay: 100ms\n      poll-interval: 300ms\n      poll-attempts: 20\n      error-backoff: 0.1\n", binSize, compress)
	if groupBy != "" {
		fmt.Fprintf(&conf, "      group-by: '%s'\n", groupBy)
	}
	fmt.Fprintf(&conf, "      target:\n        name: recv1\n        http-host: 127.0.0.1:%d\n      tags:\n", s.port+2)
	for _, tg := range tags {
		pat := tg.pattern
		if pat == "" {
			pat = "DEFAULT"
		}
		fmt.Fprintf(&conf, "        - pattern: '%s'\n", pat)
		if tg.priority != nil {
			fmt.Fprintf(&conf, "          priority: %d\n", *tg.priority)
		}
		if tg.order != "" {
			fmt.Fprintf(&conf, "          order: %s\n", tg.order)
		}
		if tg.del != nil {
			fmt.Fprintf(&conf, "          delete: %v\n", *tg.del)
		}
		if tg.method != "" {
			fmt.Fprintf(&conf, "          method: %s\n", tg.method)
		}
		t.Note("tag %q priority=%v order=%q delete=%v method=%q", pat, ip(tg.priority), tg.order, bp(tg.del), tg.method)
	}
	os.MkdirAll(filepath.Join(home, "conf"), 0755)
	confPath := filepath.Join(home, "conf", "sts.out.yaml")
	os.WriteFile(confPath, []byte(conf.String()), 0644)
	t.Note("group-by=%q bin-size=%s compress=%d", groupBy, binSize, compress)
	for _, f := range files {
		t.Note("file %s (%d bytes, time +%ds) -> tag %d group %q", f.name, len(f.data), int(f.tm.Sub(base).Seconds()), tagOf(f.name), group(f.name))
	}
	var slog bytes.Buffer
	cmd := exec.Command(bin, "-debug", "-mode", "out", "-root", home, "-conf", confPath)
	cmd.Stdout, cmd.Stderr, cmd.Dir = &slog, &slog, home
	cmd.SysProcAttr = &syscall.SysProcAttr{Pdeathsig: syscall.SIGKILL}
	if err := cmd.Start(); err != nil {
		t.Skip("sender start: " + err.Error())
	}
	done := make(chan error, 1)
	go func() { done <- cmd.Wait() }()
	var exitErr error
	select {
	case exitErr = <-done:
	case <-time.After(45 * time.Second):
		cmd.Process.Kill()
		<-done
		t.Class("sender-timeout")
		t.Skip("the one-shot sender did not exit within 45 s (inconclusive here; stops are C16's subject)")
	}
	t.Note("sender exit: %v; its log: %s", exitErr, tail(slog.String(), 6000))
	expect := map[string]int{}
	for _, f := range files {
		if eff[tagOf(f.name)].http {
			expect[f.name] = len(f.data)
		}
	}
	waitDelivered(filepath.Join(s.home, "data", "in", "src1"), expect, 40*time.Second)
	s.settle()
	proxy.mu.Lock()
	wire := append([]wirePartSeen{}, proxy.parts...)
	bad := append([]string{}, proxy.bad...)
	proxy.mu.Unlock()
	if len(bad) > 0 {
		t.Skip("proxy could not read a request: " + bad[0])
	}
	// ---- classes
	multiTag, noDot := map[int]bool{}, false
	for _, f := range files {
		multiTag[tagOf(f.name)] = true
		if !strings.Contains(f.name, ".") && tagOf(f.name) != 0 {
			noDot = true
		}
	}
	if len(multiTag) >= 2 {
		t.Class("files-under-several-tags")
		t.NonTrivial()
	}
	if noDot {
		t.Class("tagged-file-without-dot")
	}
	// ---- oracle
	first := map[string]int{}
	for i, w := range wire {
		if _, ok := first[w.name]; !ok {
			first[w.name] = i
		}
	}
	for _, f := range files {
		e := eff[tagOf(f.name)]
		_, sent := first[f.name]
		got, rerr := os.ReadFile(filepath.Join(s.home, "data", "in", "src1", f.name))
		_, serr := os.Stat(filepath.Join(out, f.name))
		desc := fmt.Sprintf("%s (tag %d %q: priority=%d order=%s delete=%v http=%v)", f.name, tagOf(f.name), tags[tagOf(f.name)].pattern, e.priority, e.order, e.del, e.http)
		if !e.http {
			t.Class("non-http-tag")
			if sent || rerr == nil {
				t.Violation("non-http-file-transmitted", "%s matches a tag whose method is not http, yet it was transmitted=%v delivered=%v", desc, sent, rerr == nil)
			}
			if serr != nil {
				t.Violation("non-http-file-deleted", "%s matches a tag whose method is not http, yet it is gone from the outgoing directory", desc)
			}
			continue
		}
		if rerr != nil || !bytes.Equal(got, f.data) {
			t.Violation("one-shot-run-did-not-deliver", "%s was not delivered byte-identical by the one-shot run (read error %v, %d of %d bytes); sender log tail: %s", desc, rerr, len(got), len(f.data), tail(slog.String(), 600))
		}
		if e.del && serr == nil {
			t.Violation("delete-setting-not-applied", "%s: its tag says delete, but after the confirmed one-shot run the file is still in the outgoing directory", desc)
		}
		if !e.del && serr != nil {
			t.Violation("delete-setting-not-applied", "%s: its tag says keep, but the file is gone from the outgoing directory", desc)
		}
		if e.del {
			t.Class("deleting-tag")
		}
	}
	// priority: everything was found by the one scan, so no part of a lower-priority file may
	// precede a part of a higher-priority file
	maxSeen := -1 << 30
	var sentNames []string
	for n := range first {
		sentNames = append(sentNames, n)
	}
	sort.Slice(sentNames, func(i, j int) bool { return first[sentNames[i]] < first[sentNames[j]] })
	prios := map[int]bool{}
	for i := len(wire) - 1; i >= 0; i-- {
		p := eff[tagOf(wire[i].name)].priority
		prios[p] = true
		if p < maxSeen {
			t.Violation("priority-not-applied", "part %s[%d,%d) of a priority-%d tag was sent before a part of a priority-%d tag; send order of files: %v", wire[i].name, wire[i].beg, wire[i].end, p, maxSeen, sentNames)
		}
		if p > maxSeen {
			maxSeen = p
		}
	}
	if len(prios) >= 2 {
		t.Class("several-priorities-on-the-wire")
	}
	// order within a group
	byGroup := map[string][]srcF{}
	for _, f := range files {
		if _, ok := first[f.name]; ok {
			byGroup[group(f.name)] = append(byGroup[group(f.name)], f)
		}
	}
	for g, fs := range byGroup {
		if len(fs) < 2 {
			continue
		}
		sort.Slice(fs, func(i, j int) bool { return first[fs[i].name] < first[fs[j].name] })
		ord := eff[tagOf(fs[0].name)].order
		same := true
		for _, f := range fs {
			if tagOf(f.name) != tagOf(fs[0].name) {
				same = false
			}
		}
		if !same {
			continue
		}
		t.Class("group-with-several-files:" + ord)
		for i := 1; i < len(fs); i++ {
			if ord == "fifo" && fs[i].tm.Before(fs[i-1].tm) || ord == "lifo" && fs[i].tm.After(fs[i-1].tm) {
				var seq []string
				for _, f := range fs {
					seq = append(seq, fmt.Sprintf("%s(+%ds)", f.name, int(f.tm.Sub(base).Seconds())))
				}
				t.Violation("order-not-applied", "group %q is under a tag with order %s but its files were sent in the order %v", g, ord, seq)
			}
		}
	}
}

// waitDelivered gives the receiver time to finish what the sender was told is "passed" or
// "waiting": validation and delivery run behind the answers (held files are released when their
// predecessor arrives or on a 10 s timer). Returns when every expected file is in the final
// directory with its full size, or after the limit.
func waitDelivered(dir string, want map[string]int, limit time.Duration) {
	deadline := time.Now().Add(limit)
	for time.Now().Before(deadline) {
		missing := false
		for name, size := range want {
			if fi, err := os.Stat(filepath.Join(dir, name)); err != nil || fi.Size() != int64(size) {
				missing = true
				break
			}
		}
		if !missing {
			return
		}
		time.Sleep(50 * time.Millisecond)
	}
}

func ip(p *int) string {
	if p == nil {
		return "-"
	}
	return strconv.Itoa(*p)
}

func bp(p *bool) string {
	if p == nil {
		return "-"
	}
	return strconv.FormatBool(*p)
}

func tail(s string, n int) string {
	if len(s) > n {
		return s[len(s)-n:]
	}
	return s
}

func TestC19Run(t *testing.T) { vt.Check(t, "C19", propTagsRun) }

// ---------------------------------------------------------------------------
// C08 over the wire: the real sender (its own HTTP client: 206 / part-count handling, the
// recovery request) against the real receiver, with the proxy failing requests.

func propWireFaults(t *vt.T) {
	bin := os.Getenv("VT_STS_BIN")
	s := startServer(t, nil, nil)
	defer s.stop()
	proxy, err := startProxy(s.port+2, fmt.Sprintf("127.0.0.1:%d", s.port))
	if err != nil {
		t.Skip("proxy: " + err.Error())
	}
	defer func() {
		ctx, cancel := context.WithTimeout(context.Background(), time.Second)
		proxy.srv.Shutdown(ctx)
		cancel()
	}()
	proxy.dataFault, proxy.recFault, proxy.pollFault, proxy.cutAt = map[int]string{}, map[int]string{}, map[int]string{}, map[int]int{}
	kinds := []string{"", "refuse", "lost", "cut"}
	nfaulty := 0
	for i := 1; i <= 8; i++ {
		k := kinds[t.Weighted("dataFault", 5, 2, 3, 3)]
		if k != "" {
			proxy.dataFault[i] = k
			nfaulty++
			t.Class("wire-fault-" + k)
		}
		proxy.cutAt[i] = t.IntRange("cutAt", 0, 5000)
	}
	for i := 1; i <= 4; i++ {
		if t.Weighted("recoveryFault", 3, 1) == 1 {
			proxy.recFault[i] = "refuse"
			t.Class("recovery-request-refused")
		}
		if t.Weighted("pollFault", 5, 1) == 1 {
			proxy.pollFault[i] = "refuse"
		}
	}
	type srcF struct {
		name string
		data []byte
	}
	var files []srcF
	nf := t.IntRange("nFiles", 1, 6)
	base := time.Now().Add(-2 * time.Hour).Truncate(time.Second)
	home := filepath.Join(s.sandbox, "area", "send")
	out := filepath.Join(home, "data", "out", "recv1")
	for i := 0; i < nf; i++ {
		size := []int{1, 40, 700, 2500, 6000}[t.Pick("size", 5)]
		data := make([]byte, size)
		for j := range data {
			data[j] = byte('a' + (i*11+j*5+j/26)%26)
		}
		name := fmt.Sprintf("%s/f%d.dat", []string{"ga", "gb"}[t.Pick("group", 2)], i)
		files = append(files, srcF{name, data})
		p := filepath.Join(out, name)
		os.MkdirAll(filepath.Dir(p), 0755)
		os.WriteFile(p, data, 0644)
		tm := base.Add(time.Duration(i*20) * time.Second)
		os.Chtimes(p, tm, tm)
	}
	binSize := []string{"300B", "1KB", "4KB"}[t.Pick("binSize", 3)]
	threads := t.IntRange("threads", 1, 3)
	var conf strings.Builder
	fmt.Fprintf(&conf, "OUT:\n  dirs:\n    cache: .sts/out\n    logs: data/log\n    out: data/out\n  sources:\n    - name: src1\n      threads: %d\n      scan-delay: 1s\n      cache-age: 5m\n      min-age: 0s\n"+
		"      bin-size: %s\n      compress: 0\n      poll-delay: 100ms\n      poll-interval: 300ms\n      poll-attempts: 30\n      error-backoff: 0.1\n"+
		"      target:\n        name: recv1\n        http-host: 127.0.0.1:%d\n      tags:\n        - pattern: DEFAULT\n          order: fifo\n          delete: false\n          method: http\n", threads, binSize, s.port+2)
	os.MkdirAll(filepath.Join(home, "conf"), 0755)
	confPath := filepath.Join(home, "conf", "sts.out.yaml")
	os.WriteFile(confPath, []byte(conf.String()), 0644)
	t.Note("threads=%d bin-size=%s data faults=%v cut positions=%v recovery faults=%v poll faults=%v", threads, binSize, proxy.dataFault, proxy.cutAt, proxy.recFault, proxy.pollFault)
	var slog bytes.Buffer
	cmd := exec.Command(bin, "-debug", "-mode", "out", "-root", home, "-conf", confPath)
	cmd.Stdout, cmd.Stderr, cmd.Dir = &slog, &slog, home
	cmd.SysProcAttr = &syscall.SysProcAttr{Pdeathsig: syscall.SIGKILL}
	if err := cmd.Start(); err != nil {
		t.Skip("sender start: " + err.Error())
	}
	done := make(chan error, 1)
	go func() { done <- cmd.Wait() }()
	select {
	case <-done:
	case <-time.After(45 * time.Second):
		cmd.Process.Kill()
		<-done
		t.Class("sender-timeout")
		t.Skip("the one-shot sender did not exit within 45 s (inconclusive here)")
	}
	expect := map[string]int{}
	for _, f := range files {
		expect[f.name] = len(f.data)
	}
	waitDelivered(filepath.Join(s.home, "data", "in", "src1"), expect, 40*time.Second)
	s.settle()
	proxy.mu.Lock()
	events := append([]wireEvent{}, proxy.events...)
	bad := append([]string{}, proxy.bad...)
	proxy.mu.Unlock()
	if len(bad) > 0 {
		t.Skip("proxy could not read a request: " + bad[0])
	}
	sort.Slice(events, func(i, j int) bool { return events[i].arrived < events[j].arrived })
	hit := 0
	for _, e := range events {
		var ds []string
		for _, p := range e.parts {
			ds = append(ds, fmt.Sprintf("%s[%d,%d)", p.Name, p.Beg, p.End))
		}
		if e.kind == "data" || e.kind == "recover" {
			t.Note("#%d %s %v fault=%q receiver: %d n=%d; sender told: %d", e.arrived, e.kind, ds, e.fault, e.serverCode, e.serverN, e.toldN)
		}
		if e.fault != "" && e.kind == "data" && len(e.parts) > 1 {
			hit++
		}
	}
	if hit > 0 {
		t.NonTrivial()
		t.Class("fault-on-multi-part-request")
	}
	// (1) nothing skipped or abandoned
	for _, f := range files {
		got, rerr := os.ReadFile(filepath.Join(s.home, "data", "in", "src1", f.name))
		if rerr != nil || !bytes.Equal(got, f.data) {
			t.Violation("not-delivered-after-wire-faults", "%s was not delivered byte-identical by the one-shot run (%v, %d of %d bytes); sender log tail: %s", f.name, rerr, len(got), len(f.data), tail(slog.String(), 500))
		}
	}
	// (2) what the sender was told is on record is not transmitted again
	type told struct {
		name     string
		beg, end int64
		at       int
	}
	var tolds []told
	for _, e := range events {
		for i := 0; i < e.toldN && i < len(e.parts); i++ {
			tolds = append(tolds, told{e.parts[i].Name, e.parts[i].Beg, e.parts[i].End, e.answered})
		}
	}
	for _, e := range events {
		if e.kind != "data" {
			continue
		}
		for _, p := range e.parts {
			for _, k := range tolds {
				if k.at < e.arrived && k.name == p.Name && p.Beg < k.end && k.beg < p.End {
					t.Violation("acknowledged-part-sent-again-on-the-wire", "request #%d transmits %s[%d,%d) although the sender had been told at #%d that [%d,%d) of it is on the receiver's record", e.arrived, p.Name, p.Beg, p.End, k.at, k.beg, k.end)
				}
			}
		}
	}
	// (3) one sent-log record per file
	cnt := map[string]int{}
	filepath.Walk(filepath.Join(home, "data", "log", "outgoing_to"), func(p string, info os.FileInfo, err error) error {
		if err == nil && !info.IsDir() {
			b, _ := os.ReadFile(p)
			for _, ln := range strings.Split(string(b), "\n") {
				if f := strings.SplitN(ln, ":", 2); len(f) == 2 {
					cnt[f[0]]++
				}
			}
		}
		return nil
	})
	for _, f := range files {
		if cnt[f.name] != 1 {
			t.Violation("sent-log-records", "%s has %d records in the sender's sent log after a run without validation failures (all: %v)", f.name, cnt[f.name], cnt)
		}
	}
}

func TestC08Wire(t *testing.T) { vt.Check(t, "C08", propWireFaults) }

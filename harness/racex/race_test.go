// Package racex: a stress reproduction (plain goroutines, real clock) of the lock-table race in
// Stage.partReceived: a query for a file that has been prepared but has no companion yet drops
// the file's lock from the table while a part is waiting for it; the next part gets another lock
// and the two update the companion concurrently (an acknowledged part vanishes from the record).
package racex

import (
	"bytes"
	"encoding/json"
	"fmt"
	"os"
	"path/filepath"
	"sync"
	"sync/atomic"
	"testing"
	"time"

	"github.com/arm-doe/sts"
	"github.com/arm-doe/sts/log"
	"github.com/arm-doe/sts/marshal"
	"github.com/arm-doe/sts/mock"
	"github.com/arm-doe/sts/stage"

	"verif/harness/vt"
)

type binned struct {
	name     string
	size     int64
	beg, end int64
	hash     string
	tm       time.Time
}

func (b *binned) GetName() string          { return b.name }
func (b *binned) GetRenamed() string       { return "" }
func (b *binned) GetPrev() string          { return "" }
func (b *binned) GetFileTime() time.Time   { return b.tm }
func (b *binned) GetFileHash() string      { return b.hash }
func (b *binned) GetFileSize() int64       { return b.size }
func (b *binned) GetSlice() (int64, int64) { return b.beg, b.end }
func (b *binned) GetSendSize() int64       { return b.size }

// one case = `rounds` fresh files, each prepared and then hit by a drawn mix of concurrent
// receptions of its parts and "did you receive this part" queries, on plain goroutines
func propConcurrentParts(t *vt.T) {
	log.InitExternal(&mock.Logger{})
	root, err := os.MkdirTemp(os.Getenv("VT_TMP"), "racex")
	if err != nil {
		t.Skip(err.Error())
	}
	defer os.RemoveAll(root)
	st := stage.New("src", filepath.Join(root, "stage"), filepath.Join(root, "final"), log.NewFileIO(filepath.Join(root, "log"), nil, nil, true), nil, nil)
	rounds := 250
	nRecv := t.IntRange("concurrentReceptions", 2, 3)
	nQuery := t.IntRange("concurrentQueries", 0, 3)
	queriesFirst := t.Bool("queriesStartFirst")
	ownPrepare := t.Bool("eachConnectionPrepares")
	if ownPrepare {
		t.Class("first-contact-from-several-connections")
		t.NonTrivial()
	}
	if nQuery > 0 {
		t.NonTrivial()
		t.Class("queries-concurrent-with-receptions")
	}
	lost, first := 0, ""
	for i := 0; i < rounds; i++ {
		name := fmt.Sprintf("d/f%04d.dat", i)
		tm := time.Now().Add(-time.Hour)
		data := bytes.Repeat([]byte("x"), 40)
		var parts []*binned
		for k := 0; k < 4; k++ {
			parts = append(parts, &binned{name, 40, int64(10 * k), int64(10*k + 10), "00000000000000000000000000000000", tm})
		}
		if !ownPrepare {
			st.Prepare([]sts.Binned{parts[0]})
		}
		var wg sync.WaitGroup
		var acked atomic.Int32
		recv := func(p *binned) {
			defer wg.Done()
			if ownPrepare {
				// as the data route does it: every request prepares for its own parts, so that the
				// file's very first contact comes from several connections at once
				st.Prepare([]sts.Binned{p})
			}
			f := &sts.Partial{Name: name, Size: 40, Time: marshal.NanoTime{Time: tm}, Hash: p.hash, Source: "src", Parts: []*sts.ByteRange{{Beg: p.beg, End: p.end}}}
			if st.Receive(f, bytes.NewReader(data[p.beg:p.end])) == nil {
				acked.Add(1)
			}
		}
		query := func() { defer wg.Done(); st.Received([]sts.Binned{parts[3]}) }
		wg.Add(nRecv + nQuery)
		if queriesFirst {
			for q := 0; q < nQuery; q++ {
				go query()
			}
		}
		for k := 0; k < nRecv; k++ {
			go recv(parts[k])
			if !queriesFirst && k < nQuery {
				go query()
			}
		}
		if !queriesFirst {
			for q := nRecv; q < nQuery; q++ {
				go query()
			}
		}
		wg.Wait()
		b, err := os.ReadFile(filepath.Join(root, "stage", name+".cmp"))
		c := &sts.Partial{}
		if n := int(acked.Load()); n > 0 && (err != nil || json.Unmarshal(b, c) != nil || len(c.Parts) < n) {
			lost++
			if first == "" {
				first = fmt.Sprintf("%s: %d receptions acknowledged, record: %s (read error %v)", name, n, string(b), err)
			}
		}
	}
	t.Note("%d rounds of %d concurrent receptions and %d concurrent queries (queries first: %v): %d rounds lost an acknowledged part", rounds, nRecv, nQuery, queriesFirst, lost)
	if lost > 0 {
		t.Violation("acknowledged-part-lost-under-concurrency", "in %d of %d rounds a part whose reception had been acknowledged is missing from the record (or the record is unreadable) after %d concurrent receptions and %d concurrent queries for the same file; first: %s", lost, rounds, nRecv, nQuery, first)
	}
}

func TestC09Concurrent(t *testing.T) { vt.Check(t, "C09", propConcurrentParts) }

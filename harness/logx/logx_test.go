// Package logx checks log.FileIO (C18): look-ups answer exactly, across day
// and month boundaries, with concurrent writers; Parse replays every record.
package logx

import (
	"fmt"
	"os"
	"path/filepath"
	"strings"
	"sync"
	"testing"
	"testing/synctest"
	"time"

	stslog "github.com/arm-doe/sts/log"
	"verif/harness/vt"
)

func TestMain(m *testing.M) {
	stslog.InitExternal(&vt.QuietLogger{})
	os.Exit(m.Run())
}

type rec struct {
	name, rename, hash string
	size               int64
	at                 time.Time
	sent               bool
}

func (r *rec) GetName() string    { return r.name }
func (r *rec) GetRenamed() string { return r.rename }
func (r *rec) GetSize() int64     { return r.size }
func (r *rec) GetHash() string    { return r.hash }
func (r *rec) TimeMs() int64      { return 12 }

var pieces = []string{"a", "b", "ab", "ba", "d1/", "d2/", ".x", "c.dat", "0"}

func genName(t *vt.T, label string, colon bool) string {
	n := t.IntRange(label+"Pieces", 1, 3)
	s := ""
	for i := 0; i < n; i++ {
		s += pieces[t.Pick(label+"Piece", len(pieces))]
	}
	s = strings.Trim(s, "/")
	if s == "" {
		s = "a"
	}
	if colon && t.Weighted(label+"Colon", 12, 1) == 1 {
		s += ":" + pieces[t.Pick(label+"Piece", len(pieces))]
		s = strings.Trim(s, "/")
	}
	return s
}

var hashes = []string{
	"0123456789abcdef0123456789abcdef",
	"fedcba9876543210fedcba9876543210",
	"00000000000000000000000000000000",
	"0123456789abcdef0123456789abcdee",
}

func day(tm time.Time) string { return tm.UTC().Format("20060102") }

func daysTouched(a, b time.Time, pad int) map[string]bool {
	if b.Before(a) {
		a, b = b, a
	}
	a = a.UTC().AddDate(0, 0, -pad)
	b = b.UTC().AddDate(0, 0, pad)
	m := map[string]bool{}
	d := time.Date(a.Year(), a.Month(), a.Day(), 0, 0, 0, 0, time.UTC)
	for !d.After(b) {
		m[day(d)] = true
		d = d.AddDate(0, 0, 1)
	}
	return m
}

var caseNo int

func propLog(t *vt.T) {
	caseNo++
	root, err := os.MkdirTemp(os.Getenv("VT_TMP"), "logx")
	if err != nil {
		t.Skip("tmp: " + err.Error())
	}
	defer os.RemoveAll(root)
	recvLog := stslog.NewFileIO(filepath.Join(root, "in"), nil, nil, t.Bool("sync"))
	sentLog := stslog.NewFileIO(filepath.Join(root, "out"), nil, nil, false)
	colon := t.Bool("allowColon")
	// every case starts at the next first-of-month midnight plus a drawn
	// offset, so that a case is (up to month lengths) a function of its draws.
	// (The fake clock must stay below year 2262; the driver bounds the number
	// of cases per process.)
	now := time.Now().UTC()
	time.Sleep(time.Date(now.Year(), now.Month()+1, 1, 0, 0, 0, 0, time.UTC).Sub(now))
	time.Sleep(time.Duration(t.IntRange("startDay", 0, 40))*24*time.Hour + time.Duration(t.IntRange("startHour", 0, 23))*time.Hour)
	if time.Now().Year() > 2200 {
		t.Skip("fake clock exhausted")
	}
	start := time.Now()
	var recs []*rec
	nameSet := map[string]bool{}
	nOps := t.IntRange("nOps", 1, 25)
	for i := 0; i < nOps; i++ {
		switch t.Weighted("op", 5, 3, 1) {
		case 0: // write 1-3 records, concurrently if more than one
			n := t.IntRange("writers", 1, 3)
			batch := make([]*rec, n)
			for j := range batch {
				r := &rec{name: genName(t, "name", colon), hash: hashes[t.Pick("hash", len(hashes))],
					size: int64(t.IntRange("size", 0, 99999)), sent: t.Weighted("sent", 3, 1) == 1}
				if !r.sent && t.Bool("renamed") {
					r.rename = genName(t, "rename", colon)
				}
				r.at = time.Now()
				batch[j] = r
			}
			var wg sync.WaitGroup
			for _, r := range batch {
				wg.Add(1)
				go func(r *rec) {
					defer wg.Done()
					if r.sent {
						sentLog.Sent(r)
					} else {
						recvLog.Received(r)
					}
				}(r)
			}
			wg.Wait()
			synctest.Wait()
			for _, r := range batch {
				recs = append(recs, r)
				nameSet[r.name] = true
				t.Note("%s write sent=%v %q ren=%q %s size=%d", r.at.Format("2006-01-02T15:04"), r.sent, r.name, r.rename, r.hash[28:], r.size)
			}
			if n > 1 {
				t.Class("concurrent-writers")
			}
		case 1: // advance within / across days
			h := t.IntRange("hours", 1, 40)
			time.Sleep(time.Duration(h) * time.Hour)
		case 2: // jump weeks
			d := t.IntRange("days", 3, 35)
			time.Sleep(time.Duration(d) * 24 * time.Hour)
			t.Class("month-scale-gap")
		}
	}
	end := time.Now()
	if len(recs) == 0 {
		return
	}
	for n := range nameSet {
		if strings.Contains(n, ":") {
			t.Class("name-with-colon")
		}
	}

	// ---- look-ups
	names := make([]string, 0, len(nameSet))
	for n := range nameSet {
		names = append(names, n)
	}
	sortStrings(names)
	nLook := t.IntRange("nLookups", 1, 12)
	for i := 0; i < nLook; i++ {
		var name string
		if t.Weighted("lookLogged", 2, 1) == 0 {
			name = names[t.Pick("lookName", len(names))]
		} else {
			name = genName(t, "lookNew", false)
		}
		hash := ""
		if t.Bool("withHash") {
			hash = hashes[t.Pick("lookHash", len(hashes))]
		}
		sent := t.Weighted("lookSent", 3, 1) == 1
		// window
		span := end.Sub(start) + time.Hour
		a := start.Add(time.Duration(t.Int64Range("winA", -int64(26*time.Hour), int64(span)+int64(26*time.Hour))))
		var b time.Time
		switch t.Weighted("winKind", 4, 2, 1, 1) {
		case 0:
			b = a.Add(time.Duration(t.Int64Range("winLen", int64(time.Second), int64(50*time.Hour))))
		case 1:
			b = a.Add(time.Duration(t.Int64Range("winLenLong", int64(24*time.Hour), int64(span)+int64(48*time.Hour))))
		case 2: // reversed
			b = a.Add(-time.Duration(t.Int64Range("winLenRev", int64(time.Second), int64(80*time.Hour))))
			t.Class("reversed-window")
		default: // empty
			b = a
			t.Class("empty-window")
		}
		var got bool
		if sent {
			got = sentLog.WasSent(name, hash, a, b)
		} else {
			got = recvLog.WasReceived(name, hash, a, b)
		}
		inner := daysTouched(a, b, 0)
		outer := daysTouched(a, b, 1)
		must, may := false, false
		var nearMiss []string
		for _, r := range recs {
			if r.sent != sent {
				continue
			}
			exact := r.name == name && (hash == "" || r.hash == hash)
			if exact && inner[day(r.at)] && !a.Equal(b) {
				must = true
			}
			if exact && outer[day(r.at)] {
				may = true
			}
			if !exact && outer[day(r.at)] {
				line := r.name + ":" + r.rename + ":" + r.hash
				if strings.Contains(line, name) {
					nearMiss = append(nearMiss, fmt.Sprintf("%q ren=%q %s", r.name, r.rename, r.hash[28:]))
					if r.name == name {
						t.Class("same-name-other-hash")
					} else {
						t.Class("name-is-substring-of-other-record")
					}
					t.NonTrivial()
				}
			}
		}
		if day(a) != day(b) {
			t.Class("window-crosses-midnight")
			t.NonTrivial()
		}
		t.Note("lookup sent=%v %q hash=%s window %s .. %s -> %v (must=%v may=%v)", sent, name, tail(hash),
			a.Format("2006-01-02T15:04"), b.Format("2006-01-02T15:04"), got, must, may)
		colonInvolved := strings.Contains(name, ":")
		for _, nm := range nearMiss {
			if strings.Contains(nm, ":") {
				colonInvolved = true
			}
		}
		if must && !got {
			key := "lookup-misses-record"
			for _, r := range recs {
				if r.sent == sent && r.name == name && hash != "" && r.hash != hash && outer[day(r.at)] {
					key = "lookup-misses-record-when-same-name-logged-with-other-hash"
				}
			}
			if t.Violation(key, "look-up (%q, hash %q, %s .. %s) answered no although a record for exactly that name%s was written on a day the window touches",
				name, tail(hash), a.Format(time.RFC3339), b.Format(time.RFC3339), map[bool]string{true: " and hash", false: ""}[hash != ""]) {
				continue
			}
		}
		if got && !may {
			key := "lookup-false-positive"
			if len(nearMiss) > 0 {
				key = "lookup-matches-substring-of-other-record"
			}
			if colonInvolved {
				key = "lookup-false-positive-name-with-colon"
			}
			if t.Violation(key, "look-up (%q, hash %q, %s .. %s) answered yes although no record for exactly that name%s exists within a day of the window; records containing the text: %v",
				name, tail(hash), a.Format(time.RFC3339), b.Format(time.RFC3339), map[bool]string{true: " and hash", false: ""}[hash != ""], nearMiss) {
				continue
			}
		}
	}

	// ---- Parse replays every received record
	var want []*rec
	for _, r := range recs {
		if !r.sent {
			want = append(want, r)
		}
	}
	type parsed struct {
		name, rename, hash string
		size               int64
		at                 time.Time
	}
	var got []parsed
	recvLog.Parse(func(name, renamed, hash string, size int64, tm time.Time) bool {
		got = append(got, parsed{name, renamed, hash, size, tm})
		return false
	}, start.Add(-time.Hour), end.Add(time.Hour))
	// records of one concurrent batch may be in any order: compare as multisets per day, and order across batches by time
	used := make([]bool, len(got))
	for _, w := range want {
		found := false
		for i, g := range got {
			if used[i] {
				continue
			}
			if g.name == w.name && g.rename == w.rename && g.hash == w.hash && g.size == w.size && g.at.Unix() == w.at.Unix() {
				used[i] = true
				found = true
				break
			}
		}
		if !found {
			key := "parse-loses-record"
			if strings.Contains(w.name, ":") || strings.Contains(w.rename, ":") {
				key = "parse-mangles-name-with-colon"
			}
			if t.Violation(key, "Parse did not yield the record name=%q rename=%q hash=%s size=%d time=%d; it yielded %v",
				w.name, w.rename, w.hash, w.size, w.at.Unix(), got) {
				return // known finding: nothing further can be compared for this history
			}
		}
	}
	if len(got) > len(want) {
		for i, g := range got {
			if !used[i] {
				key := "parse-invents-record"
				if strings.Count(g.name+g.rename, ":") > 0 || colon {
					key = "parse-mangles-name-with-colon"
				}
				if t.Violation(key, "Parse yielded a record that was never written: %+v", g) {
					return
				}
			}
		}
	}
	// order: non-decreasing time
	for i := 1; i < len(got); i++ {
		if got[i].at.Before(got[i-1].at) {
			t.Violation("parse-order", "Parse yields records out of time order: %v before %v", got[i-1], got[i])
		}
	}
}

func tail(h string) string {
	if len(h) > 4 {
		return h[len(h)-4:]
	}
	return h
}

func sortStrings(s []string) {
	for i := 1; i < len(s); i++ {
		for j := i; j > 0 && s[j] < s[j-1]; j-- {
			s[j], s[j-1] = s[j-1], s[j]
		}
	}
}

func TestC18(t *testing.T) { vt.CheckBubble(t, "C18", propLog) }

# Registry of checks: property id -> level, non-trivial rule, units (go test
# functions with case counts per tier). Read by ./check.

PROPERTIES = {}


def prop(pid, level, rule, units, assumptions=()):
    PROPERTIES[pid] = {"level": level, "rule": rule, "units": units, "assumptions": list(assumptions)}


prop("C10", "exploration",
     "rapid-generated Push/Pop histories (1-3 tags x 4 orders, 1-3 groups, chunk 1-9, files with tied and "
     "out-of-order times, names pushed again, placeholders and resumed files) run against queue.Tagged and a "
     "reference model; non-trivial = at least one Push after the first Pop AND at least one file emitted in more "
     "than one chunk; distinct = distinct 64-bit hash of the drawn choice sequence",
     [dict(pkg="queuex", test="TestC10", world="W0", quick=24000, thorough=1600000,
           required_classes=["push-after-pop", "multi-chunk-file", "name-requeued"])],
     ["reference model of the queue order/predecessor rules written from the property statement",
      "harness-side implementation of sts.Recovered for resumed files (the sender's own is exercised in the simulation checks)"])

prop("C12", "exploration",
     "rapid-generated Push/Pop histories over 1-6 groups, 1-4 tags with 3 priority levels drawn with repetition, "
     "last-file delay on/off with files on both sides of it; oracle: served group has maximal priority among ready "
     "groups, bounded bypass between consecutive chunks of a group, nil only when nothing is ready; non-trivial = "
     "some pop had >= 2 ready groups of equal priority AND >= 2 priorities present",
     [dict(pkg="queuex", test="TestC12", world="W0", quick=24000, thorough=1600000,
           required_classes=["equal-priority-contention", "multi-priority"])],
     ["file ages are hours away from the last-file delay, so the wall clock read by queue.Pop cannot change a verdict"])

# ---------------------------------------------------------------------------
# texts for MANIFEST.json (tools/mkmanifest.py)

MANIFEST_TEXT = {
    "C10": dict(
        technique="model-based property testing (rapid): generated Push/Pop histories vs. reference model of order and predecessor chain",
        text="Generated-history search: every Pop of queue.Tagged is compared with a reference model (first pending file "
             "under the tag's order; predecessor = most recently completed file, own predecessor for resumed files, none "
             "for unordered tags, never itself, always a completed/placeholder file). No counterexample in the cases counted "
             "in the evidence; not a proof.",
        note="Trusts the reference model (written from the statement) and the harness implementation of sts.Recovered; "
             "sizes are small (<= 24 bytes, chunk <= 9) so that multi-chunk files are the norm."),
    "C12": dict(
        technique="model-based property testing (rapid): generated Push/Pop histories vs. readiness model; invariants over the pop history",
        text="Generated-history search with an invariant over the served-group sequence: maximal priority among ready groups, "
             "bounded bypass among equal-priority groups (at least once if ready throughout from the first chunk on, at most "
             "once while the other stayed ready), nil only when nothing is ready, delayed last files never served.",
        note="Readiness is computed by the model from the pushes and pops (pending file present and not a lone young file "
             "under a last-file delay); file ages are hours away from the delay so wall-clock reads cannot flip a verdict."),
}

NOT_CLAIMED = {}

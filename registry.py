# Registry of checks: property id -> level, non-trivial rule, units (go test
# functions with case counts per tier). Read by ./check.

PROPERTIES = {}


def prop(pid, level, rule, units, assumptions=()):
    PROPERTIES[pid] = {"level": level, "rule": rule, "units": units, "assumptions": list(assumptions)}


prop("C10", "exploration",
     "rapid-generated Push/Pop histories (1-3 tags x 4 orders, 1-3 groups, chunk 1-9, files with tied and "
     "out-of-order times, names pushed again, placeholders and resumed files) run against queue.Tagged and a "
     "reference model; non-trivial = at least one Push after the first Pop AND at least one file emitted in more "
     "than one chunk; distinct = distinct 64-bit hash of the drawn choice sequence",
     [dict(pkg="queuex", test="TestC10", world="W0", quick=24000, thorough=1600000,
           required_classes=["push-after-pop", "multi-chunk-file", "name-requeued"])],
     ["reference model of the queue order/predecessor rules written from the property statement",
      "harness-side implementation of sts.Recovered for resumed files (the sender's own is exercised in the simulation checks)"])

prop("C12", "exploration",
     "rapid-generated Push/Pop histories over 1-6 groups, 1-4 tags with 3 priority levels drawn with repetition, "
     "last-file delay on/off with files on both sides of it; oracle: served group has maximal priority among ready "
     "groups, bounded bypass between consecutive chunks of a group, nil only when nothing is ready; non-trivial = "
     "some pop had >= 2 ready groups of equal priority AND >= 2 priorities present",
     [dict(pkg="queuex", test="TestC12", world="W0", quick=24000, thorough=1600000,
           required_classes=["equal-priority-contention", "multi-priority"])],
     ["file ages are hours away from the last-file delay, so the wall clock read by queue.Pop cannot change a verdict"])

prop("C11", "exploration",
     "(a) queue level: generated Push/Pop histories with chunk sizes 1-9, file sizes 1-24 and resumed files with 1-4 "
     "missing ranges: every chunk popped continues the file's allocation, is non-empty, <= chunk size and inside the ranges to "
     "send; (b) payload level: generated files (1-60 B), chunk 1-40, payload 1-80 packed exactly as the sender's binner does, "
     "then Split at a drawn k: parts tile every chunk and file, payload <= size+10%, Split preserves parts and sizes; "
     "non-trivial = (a) a push after the first pop and a multi-chunk file, (b) a file cut into >= 2 parts and >= 2 payloads",
     [dict(pkg="queuex", test="TestC11Queue", world="W0", quick=16000, thorough=800000,
           required_classes=["multi-chunk-file", "resumed-multi-range"]),
      dict(pkg="payloadx", test="TestC11Pack", world="W0", quick=16000, thorough=800000,
           required_classes=["file-in-several-parts", "split", "several-files-in-one-payload"]),
      dict(pkg="queuex", test="TestC11Resumed", world="W0+overlay", overlay=True, quick=8000, thorough=400000,
           required_classes=["several-missing-ranges"]),
      dict(pkg="stagex", test="TestC11Sim", world="W1", quick=600, thorough=20000, per_proc=60, shrink_runs=150,
           required_classes=["multi-part-file", "multi-thread"])],
     ["harness implementations of sts.Recovered and sts.Binnable (the sender's own are unexported; exercised end to end in the simulation checks)",
      "sizes are tens of bytes; arithmetic near 2^53 (float64 math.Min in Bin.Add) is not explored"])

prop("C13", "exploration",
     "generated payloads of 1-8 parts over 1-5 in-memory files (slices at start/middle/end/whole, names with unicode, "
     "spaces, ':' and both separators, rename and predecessor strings, nanosecond times), encoded with EncodeHeader+GetEncoder "
     "through read buffers of 1..4096 bytes and file readers returning 1..n bytes, optionally after an earlier life of the payload (a first attempt, then a part "
     "removed or a split, as the send loop does), optional gzip level 0-9, decoded with "
     "payload.NewDecoder through step readers; plus malformed streams (cut in header, cut in body, declared length short / "
     "long by 1-12, garbled header byte); non-trivial = >= 2 parts from >= 2 files with a mid-file slice and a buffer smaller "
     "than a part, or any malformed stream",
     [dict(pkg="payloadx", test="TestC13RoundTrip", world="W0", quick=8000, thorough=400000,
           required_classes=["mid-file-slice", "part-removed-after-first-attempt", "split-after-first-attempt"]),
      dict(pkg="payloadx", test="TestC13Malformed", world="W0", quick=8000, thorough=400000,
           required_classes=["cut-in-header", "declared-short", "declared-long", "cut-in-body"])],
     ["file contents avoid JSON whitespace so that an over-long declared header is always detectable",
      "a hang is judged by a 3 s real-time bound on payload.NewDecoder",
      "the HTTP leg (real client/server) is covered by the wire checks, not here"])

prop("C18", "exploration",
     "histories of 1-25 steps on a fake clock (synctest): 1-3 concurrent writers append Sent/Received records with names "
     "composed from colliding pieces (prefixes, suffixes, infixes of one another, optional ':'), 4 hashes differing in one "
     "digit, renames drawn from the same pool; time advances 1-40 h or 3-35 days between steps; then 1-12 look-ups "
     "(logged and unlogged names, with/without hash, windows same-day / multi-day / reversed / empty) and a Parse over "
     "everything, compared with the list of records written (completeness on days the window touches, soundness within "
     "+-1 day); non-trivial = a look-up whose name is contained in another record of the visited days, or the same name "
     "logged with another hash, or a window crossing midnight",
     [dict(pkg="logx", test="TestC18", world="W0-bubble", quick=2400, thorough=60000, per_proc=150,
           required_classes=["name-is-substring-of-other-record", "same-name-other-hash", "window-crosses-midnight",
                             "concurrent-writers", "month-scale-gap"])],
     ["TZ=UTC; the fake clock of testing/synctest stands in for the wall clock",
      "soundness is only demanded when no exact record lies within one day of the window (the look-up may visit one day beyond it)"])

STAGE_ASSUME = [
    "receiver world W1r: a real stage.Stage + log.FileIO on a temp directory inside one testing/synctest bubble per process (fake clock); "
    "the harness plays the data route (Prepare, then Receive per part until the first error), the recovery and poll routes",
    "a receiver restart moves the root directory to a fresh path and starts a new Stage with Recover(); the abandoned instance keeps running on the old, empty path",
    "steps are not separated by settling unless drawn, so validators and the finalizer race with the next request; oracles are written to hold for every such interleaving",
]

prop("C01", "exploration",
     "W1r: 1-4 files (sizes 1..6 parts+2, equal leaf names in different directories, optional rename, optional predecessor forest), part size 1-8, "
     "parts delivered in a drawn permutation over requests of 1-3 parts (several files per request), faults per part (byte flipped in transit, reader "
     "failing midway, connection cut before the part), staged partial overwritten on disk, wrong announced hash, retransmissions, new versions of a "
     "name, receiver restarts; directed: a name delivered before, the delivery aged 25 h and/or the receiver restarted, then a complete but corrupt copy of "
     "a new version, then something that makes the receiver read its log again - the poll must not answer passed / waiting; every arrival in the final directory is compared with the versions the harness created and with the receive log; "
     "non-trivial = some file needs > 1 part AND (a fault, a retransmission or a restart occurred)",
     [dict(pkg="stagex", test="TestC01Stage", world="W1r", quick=1600, thorough=48000, per_proc=100, shrink_runs=200,
           required_classes=["fault-1", "staged-overwrite", "restart", "wrong-announced-hash", "corrupt-complete-copy"]),
      dict(pkg="stagex", test="TestC01HeldThenNewVersion", world="W1r", quick=400, thorough=12000, per_proc=100, shrink_runs=150,
           required_classes=["held-copy-with-newer-companion"]),
      dict(pkg="stagex", test="TestC01RejectedCopyReported", world="W1r", quick=600, thorough=20000, per_proc=40, shrink_runs=150,
           required_classes=["delivery-aged-25h", "restart-after-delivery", "old-file-completes-afterwards"])],
     STAGE_ASSUME + ["corruptions are single-byte flips/overwrites, not md5 collisions; a staged copy is only overwritten while it is a partial (no receiver can detect a change made after validation)"])

prop("C04", "exploration",
     "W1r: 1-7 files whose announced predecessors form chains, forests or graphs with self references and cycles; parts of all files interleaved in a "
     "drawn order with faults, retransmissions, receiver restarts (predecessor known only from the log), CleanNow/Prune and simulated waits that fire the "
     "10 s retry and the 30 min cleaner; oracle: in the receive log no record of F precedes the first record of its predecessor unless F's chain runs "
     "into a cycle and a cleaner run was possible; a held file polls as waiting; deliverable files are delivered by the end; non-trivial = some file "
     "was complete and validated before its predecessor was delivered (observed held in staging). Directed: the predecessor was delivered 0-6 days "
     "ago and the receiver restarted since (the delivery is known only from day files further back in the receive log); the successor(s) must be released "
     "within two simulated minutes, after the predecessor",
     [dict(pkg="stagex", test="TestC04Stage", world="W1r", quick=1600, thorough=48000, per_proc=100, shrink_runs=200,
           required_classes=["held-for-predecessor", "delivered-after-predecessor", "cycle-released", "restart"]),
      dict(pkg="stagex", test="TestC04OldPredecessor", world="W1r", quick=600, thorough=20000, per_proc=100, shrink_runs=100,
           required_classes=["predecessor-delivered-3+-days-ago", "restart"])],
     STAGE_ASSUME + ["every version announces one fixed predecessor; end-to-end order through a real sender is judged in the simulation checks"])

prop("C05", "exploration",
     "W1r: base transfers plus retransmission histories (any part again before completion, after completion, after validation while held, after delivery, "
     "after a clean restart), faults, cleaning, optional 25 h waits; oracle: per (name, hash) at most one arrival (arrivals are consumed, so a second copy "
     "is a second arrival) and one log record; a delivered version polls as passed and all its parts are answered as received; "
     "non-trivial = a part was retransmitted after its file was complete. End to end (W1): the retransmissions a real sender produces after lost answers, "
     "cuts, refused recovery requests, polling give-ups and restarts of either side (one version per name) never lead to a second arrival or log record",
     [dict(pkg="stagex", test="TestC05Stage", world="W1r", quick=1600, thorough=48000, per_proc=100, shrink_runs=200,
           required_classes=["dup-after-complete", "dup-after-delivery", "restart"]),
      dict(pkg="stagex", test="TestC05Ageing", world="W1r", quick=8, thorough=96, per_proc=2, shrink_runs=25,
           required_classes=["cache-sweep-after-25h", "blind-duplicate", "asked-first"]),
      dict(pkg="stagex", test="TestC05Sim", world="W1", quick=800, thorough=24000, per_proc=50, shrink_runs=150,
           required_classes=["bytes-retransmitted", "sender-crash", "receiver-restart", "xfault-2"])],
     STAGE_ASSUME + ["content never reverts to an earlier version, so a second arrival of (name, hash) is always a duplicate delivery"])

prop("C09", "exploration",
     "W1r: 1-3 files, parts from a tiling plus (optional) an interval grammar of overlapping / nested / repeated ranges, in any order, readers that end "
     "early (cleanly or with an error) or corrupt a byte, new versions of a name with the same or another size; queries Received([...]) with tiling and "
     "arbitrary ranges, partials listing; oracle = byte-range reference model: everything the receiver claims (listing, Received, completeness) is covered "
     "by acknowledged ranges of that version and the staged bytes equal what was sent; acknowledged ranges stay listed until the file is complete or the "
     "version changes; non-trivial = multi-part file AND (fault, retransmission, overlap profile or version change). Stress unit (plain goroutines, real "
     "clock): per case 250 fresh files, each prepared and then hit by 2-3 concurrent receptions of different parts and 0-3 concurrent 'did you receive' "
     "queries; every acknowledged part must be on record afterwards",
     [dict(pkg="stagex", test="TestC09Stage", world="W1r", quick=1600, thorough=48000, per_proc=100, shrink_runs=200,
           required_classes=["fault-2", "name-reuse", "scan-nonempty"]),
      dict(pkg="racex", test="TestC09Concurrent", world="W0-stress", quick=64, thorough=2000, shards=16, shrink_runs=4,
           required_classes=["queries-concurrent-with-receptions", "first-contact-from-several-connections"])],
     STAGE_ASSUME + ["Received() answering 'no' for a range that is held is an under-claim and not judged here (it costs a retransmission, see C07/C08)"])

prop("C20", "exploration",
     "W1r, two generators: (a) general transfer histories with CleanNow / Prune(0|1h|24h) at arbitrary points, 25 h waits, name reuse, retransmissions, "
     "restarts; (b) directed: a staging area assembled from drawn ingredients (partial in progress, partial of a new version of a delivered name, validated "
     "file held for its predecessor, late duplicate of a delivered file, failed copy, failed copy with its retransmission under way, abandoned partial), aged 0 / 1 h / 25 h / 49 h (the periodic cleaner "
     "fires meanwhile), cleaned 1-2 times, then every transfer is finished by sending only what the partials listing does not show as held; oracle: data "
     "that leaves staging belongs to a delivered/logged (name, hash); live companions and acknowledged parts survive; removed directories were empty and old "
     "enough; transfers complete without retransmission; non-trivial = a cleaning ran while an undelivered version had staged data older than 24 h",
     [dict(pkg="stagex", test="TestC20Stage", world="W1r", quick=800, thorough=24000, per_proc=100, shrink_runs=200,
           required_classes=["clean", "name-reuse", "advance-25h"]),
      dict(pkg="stagex", test="TestC20Directed", world="W1r", quick=1200, thorough=36000, per_proc=100, shrink_runs=200,
           required_classes=["clean-with-old-undelivered-partial", "ingredient-new-version-of-delivered-name", "ingredient-held",
                             "ingredient-late-duplicate", "prune-removed-directory", "ingredient-retry-after-failed-validation"])],
     STAGE_ASSUME + ["directory and file times are stamped by the kernel in real time; the harness restamps them to simulated time at settled points before "
                     "ages matter",
                     "ages above 1 h are not combined with a file held for an unknown predecessor (the receiver's own 10 s log look-ups make that combination cost minutes)"])

prop("C06", "fault_enumeration",
     "W1r built with pause points inserted before every durable step of stage/, fileutil/ and log/ (go build -overlay): per case a script of 1-3 files "
     "(optional predecessor chain, rename) whose parts arrive in a drawn order in requests of 1-3 parts with retransmissions and polls; a dry run counts "
     "the durable steps (typically 20-90: mkdir, create, truncate, data write, companion temp write + rename, .part->.full, .full->.wait, log append + sync, "
     "move to <final>.lck, rename into place, companion removal; in a third of the cases the final directory is on another file system, so that the move "
     "copies: create <final>.lck, copy, remove the staged file, rename); then for 1-4 drawn indexes k the script is run again, the whole process image is frozen "
     "at step k (all goroutines parked), copied, and a new Stage recovers on the copy - in a quarter of the runs crashed again at the j-th step of "
     "recovery, while an observer takes delivered files out of the final directory between any two durable steps of the recovery (as a downstream ingest "
     "may); oracle after recovery and after a resumption phase: each file is partial with an accurate record, or held validated, or delivered under "
     "its proper name with a log record, exactly once; nothing reported passed/waiting before the crash is lost; non-trivial = crash index strictly inside "
     "the step sequence; distinct = (script, crash indexes)",
     [dict(pkg="stagex", test="TestC06Crash", world="W1r+pause", overlay=True, quick=480, thorough=16000, per_proc=60, shrink_runs=80, watchdog=60,
           required_classes=["crash:Move:os.Rename", "crash:putFileAway:Received", "crash:writeJSON:os.Rename", "crash:Receive:os.Rename",
                             "crash:process:os.Rename", "crash-during-recovery", "final-on-other-file-system", "crash:Move:Copy", "new-version-of-delivered-name"])],
     STAGE_ASSUME + ["process-crash model: every completed system call is durable; no torn writes or reordering",
                     "crash points are the statements the instrumenter recognises as durable steps (listed as crash:* classes in the evidence)",
                     "a crash inside the transfer of one part's bytes is represented by the crash points before and after the data copy"])

prop("C19", "exploration",
     "abstract configurations (1-4 sources x 0-3 tags; 16 source options and 7 tag options each absent / explicit non-zero / explicit zero-or-false; "
     "optional target, include and ignore lists) rendered as YAML or JSON, parsed with sts.NewConf; oracle = inductive inheritance rule (absent -> "
     "value of the preceding source / default tag, explicit -> as written) and parse(json.Marshal(parsed.Client)) having the same effective value for "
     "every option; non-trivial = >= 2 sources or >= 2 tags with at least one absent and one explicit zero/false option. "
     "Running sender: see the assumptions of TestC19Run",
     [dict(pkg="confx", test="TestC19Conf", world="W0", quick=16000, thorough=600000,
           required_classes=["multi-source", "format-yaml", "format-json"]),
      dict(pkg="wirex", test="TestC19Run", world="W3", needs_sts_binary=True, quick=128, thorough=3000, shards=16, shrinktime="60s", timeout=1500,
           shrink_runs=12, required_classes=["files-under-several-tags", "tagged-file-without-dot", "several-priorities-on-the-wire", "deleting-tag", "non-http-tag", "group-by-with-empty-capture"])],
     ["spellings follow the repository's tests and MarshalJSON: in JSON sizes, durations, tri-state options and error-backoff are strings, counts numbers",
      "running-sender clause (TestC19Run): the real binary twice - a receiver and a one-shot sender (one scan, send, poll, record, exit) with 1 thread - and the "
      "harness as a recording HTTP proxy between them; 2-9 files named <dir>/<leaf> (leaves with no, one or two dots), a default tag and 0-3 pattern tags "
      "(anchored directory prefixes, also overlapping alternations, in a drawn order) each giving or omitting priority, order (fifo / lifo / none), delete and "
      "method; oracle: a file whose first matching tag (default if none) has a non-http method is neither transmitted nor deleted; every other file arrives "
      "byte-identical and is deleted from the outgoing directory iff its tag says delete; on the wire no part of a lower-priority file precedes a part of a "
      "higher-priority one; within a group the files go in the tag's order; non-trivial = files under at least two tags",
      "directory names contain no dot, so that matching the tag pattern against the name (statement) and against the group (code) agree; a non-http method "
      "is only given to a tag that overlaps no other pattern tag on the generated names; explicit zero priorities are not generated (see the finding)",
      "real time: a one-shot sender that does not exit within 45 s makes the case inconclusive (skipped), not a violation (that is C16's subject)"])

prop("C17", "exploration",
     "generated directory trees (depth <= 4, hidden files and directories, .lck files, .disabled at root or below, empty files, absolute symlinks to files "
     "and directories, files on both sides of the minimum age) scanned by store.Local with generated include / ignore sets, include-hidden, "
     "follow-symlinks and a non-HTTP tag pattern; oracle = eligibility predicate written from the statement; non-trivial = a tree with eligible and "
     "ineligible files where a pattern or the age decides. Histories (W1): 1-4 source files plus hidden / locked / empty files; up to 70 steps of serve, "
     "wait, add / rewrite / append / touch, and replacing a file by a same-size file with an EARLIER modification time, between and during scans, "
     "hashing and transmission, a quarter of the files being symbolic links to files outside the directory, with or without transport faults (refused, "
     "lost answer, partial, cut, flipped byte); oracle = after a quiet period the current version of every name was transmitted in full, no version is delivered twice "
     "without a failed verdict, no arrival is a mixture (arrival monitor), ineligible files neither transmitted nor touched; non-trivial = a change made "
     "while requests were outstanding. Validation-retry histories (W1, TestC17Retry): minimum age 20 s / 2 min / 10 min / 0, a byte flipped in about every second data "
     "request, files rewritten, touched or (minimum age 0) truncated to zero bytes between a transmission and its verdict; oracle = no part on the wire belongs to an empty file, every part on the wire was read from a file that had reached the "
     "minimum age when it was transmitted (its recorded modification time against the simulated clock), and the current version is transmitted in full once "
     "the directory was left alone for the minimum age plus several scan cycles; non-trivial = a file changed after a corrupted transmission of it",
     [dict(pkg="storex", test="TestC17Scan", world="W0", quick=6000, thorough=200000, required_classes=["symlink-to-file", "disabled-at-root", "file-time-after-scan-start"]),
      dict(pkg="stagex", test="TestC17Sim", world="W1", quick=1000, thorough=40000, per_proc=60, shrink_runs=150,
           required_classes=["replaced-by-older-file", "change-during-transmission", "symlink-to-file-as-source"]),
      dict(pkg="stagex", test="TestC17Retry", world="W1", quick=400, thorough=16000, per_proc=60, shrink_runs=150,
           required_classes=["changed-after-corrupt-transmission", "file-touched", "file-rewritten", "file-truncated-to-empty"])],
     ["file ages are 5 min / 3 h against a minimum age of 0 / 2 h, so the wall clock cannot flip a verdict",
      "for a symlink the statement does not say whose age counts; without link following the link's own time is used, with link following the target's",
      "the history unit runs in the simulation world (real Broker, store, cache, queue, payload, stage; harness-owned transport); whether a version that "
      "was sent again is then delivered is C03's subject (two versions of a name in flight: see C03's finding)",
      "a rewrite keeping both size and modification time is undetectable by design and not generated"])

SIM_ASSUME = [
    "simulation world W1: real client.Broker, store.Local, cache.JSON, queue.Tagged, payload.Bin (real encoder and decoder on every payload), "
    "log.FileIO (both sides) and stage.Stage in one process on a fake clock; the harness is the transport (it mirrors the data, data-recovery, "
    "validate and partials routes call for call), chooses which pending request is served next, injects faults, restarts either side, mutates the "
    "source directory and moves time",
    "http/server.go and http/client.go are not executed in this world",
    "the Go scheduler's choice among runnable sender goroutines between two requests is not owned by the harness",
    "a rewrite of a source file always changes its modification time (a change keeping size and time is undetectable by design)",
]

prop("C02", "exploration",
     "W1: 1-4 source files over 1-3 groups, delete on/off with optional delete-delay, poll delay/interval/attempts/batch drawn small, 1-4 threads; up to 70 steps "
     "of: serve a drawn pending request with a drawn fault (refuse, lost answer, partial content, cut, byte flip; polls refused / answer lost), wait, add / "
     "rewrite (same or new size) / touch a source file, restart the receiver, crash and restart the sender (optionally mutating while it is down); at "
     "every FileSource.Remove and FileCache.Done the md5 of the source file at that instant must be held validated by the receiver (.wait, on its way "
     "into the final directory, or delivered); at the end no source file is missing without such a copy; non-trivial = at least one release AND (a "
     "rewrite, a sender crash or a refused/lost request)",
     [dict(pkg="stagex", test="TestC02Sim", world="W1", quick=1200, thorough=40000, per_proc=60, shrink_runs=150,
           required_classes=["file-rewritten", "sender-crash", "receiver-restart", "xfault-2"])],
     SIM_ASSUME)

prop("C03", "exploration",
     "W1: arbitrary finite prefix (up to 60 steps) of transport faults of all kinds, poll faults, restarts of both sides and source mutations, then a "
     "quiet suffix: no faults, no changes; bound B = 4*(scan-delay + poll-delay + attempts*poll-interval) + 10 min of sender activity, then up to 80 "
     "simulated minutes of receiver-only time (10 s predecessor retries, 30 min cleaner) once the sender is idle; within it every file's last version "
     "must be delivered and its cache entry done; files released on a wrong confirmation (known C02 findings) are left out; non-trivial = >= 2 "
     "faults of >= 2 kinds",
     [dict(pkg="stagex", test="TestC03Sim", world="W1", quick=1000, thorough=30000, per_proc=50, shrink_runs=150,
           required_classes=["sender-crash", "receiver-restart", "xfault-1", "xfault-3", "xfault-4"])],
     SIM_ASSUME + ["'eventually' is decided only as 'within the stated bound of simulated time after the last perturbation'"])

prop("C08", "fault_enumeration",
     "W1: 1-5 files giving several payloads of several parts, 1-4 threads; every data request is served with a drawn fault kind at a drawn part index and "
     "byte position (refuse, lost answer after full processing, partial content at part k, connection cut inside part k, byte flip), recovery requests may "
     "be refused repeatedly; oracle over the wire history: Sent() is logged only when the acknowledged ranges of that version cover the file; no "
     "acknowledged part is transmitted again unless a failed/none verdict or a flip intervened; nothing is abandoned (delivered after the failures stop); "
     "non-trivial = a partial/cut/lost-answer failure on a multi-part file",
     [dict(pkg="stagex", test="TestC08Sim", world="W1", quick=1200, thorough=40000, per_proc=60, shrink_runs=150,
           required_classes=["xfault-2", "xfault-3", "xfault-4", "multi-part-file"]),
      dict(pkg="wirex", test="TestC08Wire", world="W3", needs_sts_binary=True, quick=96, thorough=3000, shards=16, shrinktime="60s", timeout=1500, shrink_runs=12,
           required_classes=["wire-fault-cut", "wire-fault-lost", "wire-fault-refuse", "recovery-request-refused", "fault-on-multi-part-request"])],
     SIM_ASSUME + ["failure positions are drawn, not exhaustively enumerated per scenario",
                   "wire unit (TestC08Wire): the real binary as one-shot sender (its own HTTP client: 206 / X-STS-PartCount, the recovery request) and as receiver, "
                   "with the harness as a proxy that refuses the n-th data / recovery / poll request, loses its answer after the receiver processed it, or lets the "
                   "receiver see the body end at a drawn byte (the receiver's partial-content answer is passed on); 1-6 files, 1-3 threads, 2-30 requests; oracle: every "
                   "file arrives byte-identical, no part the sender was told is on record (200, 206 count, recovery answer) appears in a later data request, one "
                   "sent-log record per file; real time, no validation failures injected"])

prop("C07", "fault_enumeration",
     "W1: 1-6 files, 1-4 threads (several payloads in flight, served in a drawn order so that parts land out of order and with gaps), optional light transport "
     "faults; every externally visible sender action (scan, open for hashing/sending, cache add / done / persist, each request, sent-log write, delete) is a "
     "numbered boundary; the sender is crashed at a drawn boundary index (from that instant none of its actions has an effect), optionally the source "
     "directory changes while it is down (stale cache), a new sender with the re-read cache starts, in a quarter of the runs it is crashed again 1-30 actions "
     "later; oracle: after a quiet period everything is delivered exactly once and confirmed, every release satisfies the C02 oracle, ranges transmitted after "
     "a restart are disjoint from the ranges the receiver listed to that generation, delivered versions are not transmitted again, sent-log records per "
     "version <= 1 + crashes; non-trivial = the crash falls after the first transmission and before everything is confirmed",
     [dict(pkg="stagex", test="TestC07Sim", world="W1", quick=2400, thorough=40000, per_proc=60, shrink_runs=150,
           required_classes=["crash-before:request", "crash-before:cache-persist", "crash-before:scan", "second-crash", "multi-thread"])],
     SIM_ASSUME + ["a crash inside one action (half-written request) is represented by transport faults followed by the crash",
                   "crash indexes are drawn (1..160, 1-2 per scenario), not exhaustively enumerated",
                   "touched or identically rewritten files count as changed and may be sent again"])

prop("C16", "fault_enumeration",
     "W1: 1-8 files (many small or few large, 1-4 threads), with or without transport and poll faults; the stop request (graceful or immediate) is delivered "
     "after a drawn number of controller steps - 0 for a one-shot run - i.e. at a drawn point of the request / wait history, typically with requests in "
     "flight or files awaiting their poll; then requests are served without faults, except that in a quarter of the runs the next 1-12 data requests have a byte "
     "flipped (validation failures in flight while stopping); oracle: Start returns within 30 s (immediate) or the C03 bound + 20 min "
     "(graceful) of simulated time; afterwards every version whose positive verdict reached the sender is marked done in the persisted cache (re-read from "
     "disk), and after a graceful stop without faults everything the scans found is delivered or held validated; non-trivial = stop with a request in flight "
     "or a file awaiting its poll",
     [dict(pkg="stagex", test="TestC16Sim", world="W1", quick=1200, thorough=40000, per_proc=60, shrink_runs=150,
           required_classes=["graceful", "immediate", "one-shot", "stop-with-request-in-flight", "validation-failures-after-stop", "immediate-stop-with-every-request-refused"])],
     SIM_ASSUME + ["deadlocks that need a particular interleaving of runnable sender goroutines between two requests are found only by repetition"])

WIRE_ASSUME = [
    "wire world W3: the real sts binary (built from /repo's working tree) runs as a receiver (-mode in) on loopback with a generated YAML configuration; "
    "the harness sends real HTTP requests and snapshots (path, size, md5) a sandbox directory that contains the receiver's roots as a proper sub-directory, "
    "together with canary files around them, before and after each request (after the tree has been stable for 15 ms)",
    "real time: the settle heuristic (two equal snapshots 15 ms apart, at most 600 ms) could in principle miss a very late side effect",
]

prop("C14", "exploration",
     "W3: receivers with and without a source list; 1-12 requests per server over every route (PUT /data, PUT /data-recovery, POST /validate, GET /partials, "
     "GET|DELETE /static/...), with part name / rename / predecessor / source / separator header / URL path drawn from a traversal vocabulary ('..' chains, "
     "absolute paths, backslashes, percent-encoding, empty segments, 300-character names, unicode, '.'/'..' and slash-containing source names); oracle: every "
     "change of the sandbox lies under the stage / final / receive-log / serve directory of the source the request was authorised for (or the message log), no "
     "answer contains a canary token, a 4xx answer changed nothing; non-trivial = a request carrying at least one escaping field",
     [dict(pkg="wirex", test="TestC14Wire", world="W3", needs_sts_binary=True, quick=240, thorough=6000, shards=8, shrinktime="60s", timeout=1500,
           required_classes=["escape-attempt"])],
     WIRE_ASSUME + ["symlink planting inside the roots by a local user is out of scope (the property is about requests)"])

prop("C15", "exploration",
     "(a) W3: the real receiver binary configured with source lists {none, one, three incl. dotted and slash-containing names} x key lists {none, one, two}; an "
     "authorised sender first leaves a partial file and records what it is told (partials listing, recovery answer); then 1-14 requests over all six "
     "validated route/method pairs with source and key drawn from valid / wrong / empty / other case / containing separators or pattern characters / another "
     "source's name, in header or query string; for every request the configuration does not allow: status 403 (400 without source), no change anywhere "
     "in stage, final, receive-log and serve directories (sandbox snapshot), and the authorised sender is told exactly what it was told before; "
     "(b) W1r with pause points: a staging area with complete-but-unvalidated files (first life crashed while validating) is put into Recover(), which is "
     "held at its j-th durable step; while held, Ready() must be false, and Recover() must not return before validation of what it found is done; "
     "non-trivial = (a) a request differing from an authorised one in source or key only, (b) recovery actually held",
     [dict(pkg="wirex", test="TestC15Wire", world="W3", needs_sts_binary=True, quick=160, thorough=6000, shards=8, shrinktime="60s", timeout=1500,
           required_classes=["unauthorised-request"]),
      dict(pkg="stagex", test="TestC15Recovery", world="W1r+pause", overlay=True, quick=480, thorough=16000, per_proc=60, shrink_runs=80, watchdog=60,
           required_classes=["request-during-recovery"])],
     WIRE_ASSUME + ["header values are trimmed by HTTP itself, so values differing only in surrounding blanks are not generated",
                    "the window between 'go stager.Recover()' at process start and the goroutine clearing the ready flag is not claimed",
                    "(b) checks the ready flag the HTTP layer consults (503 when false), not the HTTP answer itself"])

# ---------------------------------------------------------------------------
# texts for MANIFEST.json (tools/mkmanifest.py)

MANIFEST_TEXT = {
    "C10": dict(
        technique="model-based property testing (rapid): generated Push/Pop histories vs. reference model of order and predecessor chain",
        text="Generated-history search: every Pop of queue.Tagged is compared with a reference model (first pending file "
             "under the tag's order; predecessor = most recently completed file, own predecessor for resumed files, none "
             "for unordered tags, never itself, always a completed/placeholder file). No counterexample in the cases counted "
             "in the evidence; not a proof.",
        note="Trusts the reference model (written from the statement) and the harness implementation of sts.Recovered; "
             "sizes are small (<= 24 bytes, chunk <= 9) so that multi-chunk files are the norm."),
    "C12": dict(
        technique="model-based property testing (rapid): generated Push/Pop histories vs. readiness model; invariants over the pop history",
        text="Generated-history search with an invariant over the served-group sequence: maximal priority among ready groups, "
             "bounded bypass among equal-priority groups (at least once if ready throughout from the first chunk on, at most "
             "once while the other stayed ready), nil only when nothing is ready, delayed last files never served.",
        note="Readiness is computed by the model from the pushes and pops (pending file present and not a lone young file "
             "under a last-file delay); file ages are hours away from the delay so wall-clock reads cannot flip a verdict."),
}

MANIFEST_TEXT["C11"] = dict(
    technique="property-based testing (rapid): tiling invariants over generated chunk streams and payload packings; Split round trip",
    text="Generated-input search with validity predicates: chunks/parts are non-empty, ascending, disjoint, within limits and "
         "cover exactly the bytes to send; payloads stay within size+10%; Split(k) preserves the part list and byte counts.",
    note="Queue and payload are driven through their exported API with harness-side Recovered/Binnable implementations; the "
         "end-to-end 'every byte exactly once' clause is additionally observed at the transport in the simulation checks.")
MANIFEST_TEXT["C13"] = dict(
    technique="round-trip property testing (rapid) of encoder/decoder with generated payloads, buffer sizes and gzip levels; malformed-stream generation with a refusal oracle",
    text="Round trip: decoded descriptors equal encoded ones field by field and each part reader yields exactly its bytes and "
         "EOF at end-beg. Malformed streams must be refused (error) or, if accepted, never hand out a complete part with bytes "
         "of another position; a decoder that does not return within 3 s is a violation.",
    note="In-memory leg only in this unit; trusts the harness's Binnable and in-memory Readable.")

MANIFEST_TEXT["C18"] = dict(
    technique="model-based property testing on a fake clock (rapid generators + testing/synctest): generated write/advance/look-up histories vs. the list of records written",
    text="Generated-history search against a list-of-records model: look-ups must say yes for exact records on touched days "
         "and no when no exact record is within a day of the window; Parse must replay every record. Two findings about "
         "names containing ':' are recorded as known and set aside by key.",
    note="log.FileIO runs on testing/synctest's fake clock; one bubble per process; failures are minimised by the harness's "
         "own replay-based shrinker.")

STAGE_NOTE = ("Real stage.Stage and log.FileIO driven through the GateKeeper interface on a fake clock; the harness, not an HTTP server, plays the "
              "routes. Failures are minimised by the harness's replay-based shrinker; schedule-dependent ones are reported with the recorded history.")
MANIFEST_TEXT["C01"] = dict(
    technique="property-based testing with fault injection on a fake clock (rapid + testing/synctest): generated transfer histories, oracle = every arrival equals an announced, hash-matching source version and is logged",
    text="Generated-history search: nothing reaches the final directory unless it is byte-identical to a version whose announced MD5 it has and the "
         "log records it; corrupt complete copies are reported failed. Receiver-level here; sender-side clauses are checked in the simulation units.",
    note=STAGE_NOTE)
MANIFEST_TEXT["C04"] = dict(
    technique="property-based testing on a fake clock: generated predecessor graphs and arrival histories, invariant over the receive-log order",
    text="Generated predecessor chains/forests/cycles with arbitrary arrival orders, restarts and timer firings; invariant: a file's log record never "
         "precedes its predecessor's (except cycle release after a cleaner run), held files poll as waiting, deliverable files are released.",
    note=STAGE_NOTE)
MANIFEST_TEXT["C05"] = dict(
    technique="property-based testing on a fake clock: generated retransmission histories, oracle = at most one arrival and one log record per (name, hash)",
    text="Generated retransmission histories at every stage of a file's life; arrivals are consumed so that a second delivery is observable; "
         "delivered versions must be recognised (passed / parts received).",
    note=STAGE_NOTE)
MANIFEST_TEXT["C09"] = dict(
    technique="model-based property testing: byte-range reference model vs. companion listing, Received() answers and completeness",
    text="Reference model of acknowledged byte ranges per (name, hash): listing and Received() may only claim covered ranges with identical staged "
         "bytes, completeness requires full coverage, acknowledged ranges stay listed.",
    note=STAGE_NOTE)

MANIFEST_TEXT["C20"] = dict(
    technique="property-based testing on a fake clock: generated and ingredient-assembled staging areas, before/after snapshot oracle around every cleaning (explicit or timer-driven), completion without retransmission",
    text="Snapshot oracle: whatever leaves the staging area during a cleaning belongs to a delivered or logged (name, hash); nothing of an undelivered "
         "version is removed or truncated; pruned directories were empty and old; in-flight transfers then complete using only unacknowledged parts.",
    note=STAGE_NOTE)

MANIFEST_TEXT["C06"] = dict(
    technique="fault injection by enumerated crash points (build-time inserted pause points, process image frozen and copied) over rapid-generated transfer scripts; recovery/resumption oracle",
    text="For generated scripts, drawn (thorough: many) indexes of the counted sequence of durable steps are used as crash points: the running instance "
         "is frozen there, its directories copied, a fresh instance recovers (optionally crashing again), the sender's resumption is played and every "
         "file must end in exactly one legal condition, delivered exactly once.",
    note=STAGE_NOTE + " Pause points are inserted by harness/cmd/instrument at build time; with no hook armed the instrumented code is the original code.")

MANIFEST_TEXT["C19"] = dict(
    technique="property-based testing (rapid): generated configurations in YAML and JSON vs. an inductive inheritance oracle; parse -> JSON -> parse round trip; generated tag lists and file sets run through the real binaries with the send order observed at a recording proxy",
    text="Generated-configuration search for the inheritance and re-encoding clauses. Known finding: explicit numeric zeros are overridden. The clause "
         "about the running sender applying each tag's settings to matching files is decided by a second unit that runs the real binary as one-shot "
         "sender against the real binary as receiver through a recording proxy.",
    note="Configuration documents are generated from an abstract model (option present / absent / explicit zero); parsed through sts.NewConf on temp files.")
MANIFEST_TEXT["C17"] = dict(
    technique="property-based testing (rapid): generated directory trees and filter settings vs. a reference eligibility predicate; stateful generation of source-directory histories in a deterministic simulation",
    text="The 'queued if and only if eligible' clause is decided for single scans of generated trees; the history clauses (changed files sent again, "
         "unchanged ones not, one complete version, ineligible files untouched) by generated histories against the real sender and receiver; "
         "a third unit aims at the validation-retry path (non-zero minimum age, corrupted transmissions, changes before the verdict) and tests the age of every transmitted part.",
    note="Real temp directories, real store.Local.Scan with the same allow callback shape as the sender (size > 0).")

SIM_NOTE = ("Real sender and receiver components wired together by the harness inside one testing/synctest bubble per process; the transport is the "
            "harness's rendering of the four HTTP handlers. Known findings (poll by name only; two versions in flight) are set aside by key.")
MANIFEST_TEXT["C02"] = dict(
    technique="property-based testing with fault injection and restarts in a deterministic simulation (rapid + testing/synctest): invariant at every release of a source file",
    text="Generated histories of faults, restarts and source mutations; at each done-marking and deletion the receiver must durably hold a validated "
         "copy of exactly the content the source file has at that instant.",
    note=SIM_NOTE)
MANIFEST_TEXT["C03"] = dict(
    technique="property-based testing with fault injection in a deterministic simulation: bounded-liveness oracle after a failure-free suffix",
    text="After any generated finite prefix of faults, restarts and mutations, a failure-free period of bounded simulated time must end with every "
         "file delivered, confirmed and marked done.",
    note=SIM_NOTE + " Liveness only in the bounded reading.")
MANIFEST_TEXT["C08"] = dict(
    technique="fault injection at drawn positions of drawn kinds in a deterministic simulation, and by a failing proxy between the real binaries; invariant over the wire history",
    text="Every data request may fail at a drawn part index in one of five ways; the wire history must show that only acknowledged parts count as sent, "
         "only the remainder is sent again, nothing is abandoned, and Sent() is logged only for fully acknowledged versions.",
    note=SIM_NOTE + " The second unit runs the real sender binary against the real receiver binary through a proxy that refuses, cuts or loses requests.")

MANIFEST_TEXT["C07"] = dict(
    technique="fault injection: sender killed at a drawn index of its externally visible actions in a deterministic simulation; end-state and economy oracle over the wire history",
    text="The sender is killed at drawn action boundaries (all wrappers of that process turn into no-ops), restarted from its persisted cache, possibly "
         "killed again; the run must end as an uninterrupted one would, sending after the restart only what the receiver did not list as held.",
    note=SIM_NOTE)
MANIFEST_TEXT["C16"] = dict(
    technique="schedule/fault enumeration: stop request injected at a drawn point of the simulated request history; termination bound in simulated time and persisted-state oracle",
    text="Stops of both kinds at drawn moments (including one-shot); Start must return within a simulated-time bound, confirmed files must be recorded done "
         "in the persisted cache, a failure-free graceful stop must leave nothing found by the scans undelivered.",
    note=SIM_NOTE)

MANIFEST_TEXT["C14"] = dict(
    technique="fuzzing the real receiver process over HTTP with a traversal grammar in every field of every route; sandbox snapshot-diff oracle with canary files",
    text="Generated hostile requests against the real binary; the before/after listing of a sandbox containing the receiver's roots must show changes only "
         "inside the authorised source's directories, and answers must not disclose canary content.",
    note="Real binary, real loopback HTTP, real file system; about a thousand requests per quick run.")

MANIFEST_TEXT["C15"] = dict(
    technique="fuzzing the real receiver process with generated credentials on every route (snapshot-diff and answer-stability oracle); pause-point scheduling of Recover() for the readiness clause",
    text="Generated (configuration, request) pairs against the real binary: every request the configuration does not allow must be refused with the "
         "right status, leave all receiver directories untouched and not change what an authorised sender is told. Recovery held at drawn steps must keep "
         "the staging area not ready.",
    note="Real binary over loopback for the authorisation clause; instrumented in-process Stage for the recovery clause.")

NOT_CLAIMED = {}
